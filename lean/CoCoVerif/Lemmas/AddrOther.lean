/-
Lemmas/AddrOther.lean — `calculate_address_offset` (`addrOffset`) cut into its two halves: the value of ONE
operand of a label expression (`addrOperand`, model: a label's ADDRESS, a signed number, anything else is an
"unresolved expression" diagnostic) and the arithmetic on the two integers IN THE WRITTEN ORDER (`addrCombine`;
repair batch B3: left `op` right, a result below zero is reduced modulo 65536 for every operator).
Shared by the Front*, Layout*, NoInt* and Encode* lemma families.
-/
import CoCoVerif.Model.Program

namespace CoCo.Asm
open CoCo

/-- the arithmetic of `calculate_address_offset` on the two operand values `a` (left) and `b` (right) -/
def addrCombine (op : Char) (a b : Int) : Outcome Value :=
  let z : Option Int :=
    if op == '+' then some (a + b) else if op == '-' then some (a - b)
    else if op == '*' then some (a * b) else (if b = 0 then none else some (Int.tdiv a b))
  match z with
  | none => .diag
  | some z => (match numericOfInt (if z < 0 then z % 65536 else z) (some 4) .extended with | .ok nv => .ok nv | .error _ => .diag)

/-- `addrOffset` in closed form: both operands through `addrOperand` (left first), then `addrCombine` -/
theorem addrOffset_expr (ss : List Stmt) (l r : Value) (op : Char) (m : Mode) (ae : Bool) :
    addrOffset ss (.expr l r op m ae) =
      (match addrOperand ss l with
       | .ok a =>
         (match addrOperand ss r with
          | .ok b => addrCombine op a b
          | .diag => .diag
          | .internal => .internal
          | .diverged => .diverged)
       | .diag => .diag
       | .internal => .internal
       | .diverged => .diverged) := by
  simp only [addrOffset, addrCombine]
  cases addrOperand ss l <;> try rfl
  cases addrOperand ss r <;> rfl

theorem addrOffset_nonexpr (ss : List Stmt) (v : Value) (h : ∀ l r op m ae, v ≠ .expr l r op m ae) :
    addrOffset ss v = .internal := by
  cases v <;> first | rfl | exact absurd rfl (h _ _ _ _ _)

theorem addrCombine_cases (op : Char) (a b : Int) :
    addrCombine op a b = .diag ∨ ∃ v, addrCombine op a b = .ok v := by
  unfold addrCombine
  generalize (if (op == '+') = true then _ else _ : Option Int) = z
  cases z with
  | none => left; rfl
  | some z => dsimp only; cases numericOfInt (if z < 0 then z % 65536 else z) (some 4) .extended <;> simp

theorem addrCombine_ne_internal (op : Char) (a b : Int) : addrCombine op a b ≠ .internal := by
  rcases addrCombine_cases op a b with h | ⟨v, h⟩ <;> rw [h] <;> simp

theorem addrCombine_ne_diverged (op : Char) (a b : Int) : addrCombine op a b ≠ .diverged := by
  rcases addrCombine_cases op a b with h | ⟨v, h⟩ <;> rw [h] <;> simp

theorem addrOperand_ne_diverged (ss : List Stmt) (v : Value) : addrOperand ss v ≠ .diverged := by
  unfold addrOperand
  repeat' split
  all_goals simp

/-- whether an operand is an "unresolved expression" does not depend on the statement list -/
theorem addrOperand_diag_iff (ss ss' : List Stmt) (v : Value) :
    addrOperand ss v = .diag ↔ addrOperand ss' v = .diag := by
  unfold addrOperand
  repeat' split
  all_goals simp

/-- one operand in closed form -/
theorem addrOperand_address (ss : List Stmt) (j : Nat) (m : Mode) :
    addrOperand ss (.address j m) = (match addrIntOf ss j with | some x => .ok (x : Int) | none => .internal) := rfl

theorem addrOperand_numeric (ss : List Stmt) (k : Nat) (h : Option Nat) (m : Mode) (n : Bool) :
    addrOperand ss (.numeric k h m n) = .ok (if n then -(k : Int) else k) := rfl

/-- a number without a sign contributes itself -/
theorem addrOperand_numeric_pos (ss : List Stmt) (k : Nat) (h : Option Nat) (m : Mode) :
    addrOperand ss (.numeric k h m false) = .ok (k : Int) := rfl

theorem addrOperand_other (ss : List Stmt) (v : Value) (ha : v.isAddress = false) (hn : v.isNumeric = false) :
    addrOperand ss v = .diag := by
  simp [addrOperand, ha, hn]

/-- success of `addrOffset` splits into the two operands and the arithmetic -/
theorem addrOffset_ok {ss : List Stmt} {l r : Value} {op : Char} {m : Mode} {ae : Bool} {v : Value} :
    addrOffset ss (.expr l r op m ae) = .ok v ↔
      ∃ a b, addrOperand ss l = .ok a ∧ addrOperand ss r = .ok b ∧ addrCombine op a b = .ok v := by
  rw [addrOffset_expr]
  cases addrOperand ss l <;> cases addrOperand ss r <;> simp

private theorem numericOfInt_isNumeric' {v : Int} {h : Option Nat} {m : Mode} {x : Value}
    (hx : numericOfInt v h m = .ok x) : x.isNumeric = true := by
  unfold numericOfInt at hx
  split at hx
  · cases hx
  · cases hx; rfl

theorem addrCombine_isNumeric {op : Char} {a b : Int} {x : Value} (hx : addrCombine op a b = .ok x) :
    x.isNumeric = true := by
  unfold addrCombine at hx
  dsimp only at hx
  split at hx
  · cases hx
  · split at hx
    · rename_i hn; cases hx; exact numericOfInt_isNumeric' hn
    · cases hx

/-- what `calculate_address_offset` gives is a number -/
theorem addrOffset_isNumeric {ss : List Stmt} {v x : Value} (hx : addrOffset ss v = .ok x) : x.isNumeric = true := by
  cases v with
  | expr l r op m ae =>
    obtain ⟨a, b, _, _, h3⟩ := addrOffset_ok.1 hx
    exact addrCombine_isNumeric h3
  | _ => cases hx

/-! ### the per-entry step of `evalSyms` (batch 4: an EQU defined by an expression is replaced by its value) -/

/-- what `evalSyms` makes of one table entry: an expression entry is resolved against the table as it was, a label
expression is then evaluated on the final addresses; every other entry is kept -/
def evalSym (ss : List Stmt) (t : SymTab) (v : Value) : Outcome Value :=
  if v.isExpression || v.isAddrExpr then
    match v.resolve t with
    | .error _ => .diag
    | .ok r =>
      match (if r.isAddrExpr then addrOffset ss r else .ok r) with
      | .ok r' => .ok (if r'.isNumeric then r' else v)
      | o => o
  else .ok v

theorem evalSyms_nil (ss : List Stmt) (t : SymTab) : evalSyms ss t [] = .ok [] := rfl

theorem evalSyms_cons (ss : List Stmt) (t : SymTab) (k : Str) (v : Value) (rest : SymTab) :
    evalSyms ss t ((k, v) :: rest) =
      match evalSym ss t v with
      | .ok v' => (match evalSyms ss t rest with | .ok r => .ok ((k, v') :: r) | o => o)
      | .diag => .diag
      | .internal => .internal
      | .diverged => .diverged := by
  rw [evalSyms]; rfl

/-- an entry that is not an expression (a label, an EQU of a number, ...) is kept -/
theorem evalSym_plain (ss : List Stmt) (t : SymTab) {v : Value} (h : ∀ l r op m ae, v ≠ .expr l r op m ae) :
    evalSym ss t v = .ok v := by
  cases v <;> first | rfl | exact absurd rfl (h _ _ _ _ _)

theorem evalSym_address (ss : List Stmt) (t : SymTab) (i : Nat) (m : Mode) :
    evalSym ss t (.address i m) = .ok (.address i m) := rfl

theorem evalSym_numeric (ss : List Stmt) (t : SymTab) (i : Nat) (h : Option Nat) (m : Mode) (n : Bool) :
    evalSym ss t (.numeric i h m n) = .ok (.numeric i h m n) := rfl

/-- an expression entry: `resolve`, then `addrOffset` for a label expression; a numeric result replaces the entry -/
theorem evalSym_expr (ss : List Stmt) (t : SymTab) (l r : Value) (op : Char) (m : Mode) (ae : Bool) :
    evalSym ss t (.expr l r op m ae) =
      match (Value.expr l r op m ae).resolve t with
      | .error _ => .diag
      | .ok x =>
        match (if x.isAddrExpr then addrOffset ss x else .ok x) with
        | .ok r' => .ok (if r'.isNumeric then r' else .expr l r op m ae)
        | o => o := by
  cases ae <;> rfl

/-- an entry is kept or becomes a number -/
theorem evalSym_ok_cases {ss : List Stmt} {t : SymTab} {v v' : Value} (h : evalSym ss t v = .ok v') :
    v' = v ∨ (v'.isNumeric = true ∧ ∃ l r op m ae, v = .expr l r op m ae) := by
  cases v with
  | expr l r op m ae =>
    rw [evalSym_expr] at h
    split at h
    · cases h
    · split at h
      · rename_i r' _
        simp only [Outcome.ok.injEq] at h
        subst h
        by_cases hn : r'.isNumeric = true
        · right; rw [if_pos hn]; exact ⟨hn, _, _, _, _, _, rfl⟩
        · left; rw [if_neg hn]
      · rename_i hne
        exact absurd h (hne v')
  | _ => left; cases h; rfl

theorem evalSyms_ok_cons {ss : List Stmt} {t : SymTab} {k : Str} {v : Value} {rest r : SymTab}
    (h : evalSyms ss t ((k, v) :: rest) = .ok r) :
    ∃ v' r', evalSym ss t v = .ok v' ∧ evalSyms ss t rest = .ok r' ∧ r = (k, v') :: r' := by
  rw [evalSyms_cons] at h
  cases h1 : evalSym ss t v with
  | ok v' =>
    rw [h1] at h
    dsimp only at h
    cases h2 : evalSyms ss t rest with
    | ok r' => rw [h2] at h; simp only [Outcome.ok.injEq] at h; exact ⟨v', r', rfl, rfl, h.symm⟩
    | _ => rw [h2] at h; cases h
  | _ => rw [h1] at h; cases h

theorem evalSyms_cons_ok {ss : List Stmt} {t : SymTab} {k : Str} {v v' : Value} {rest r' : SymTab}
    (h1 : evalSym ss t v = .ok v') (h2 : evalSyms ss t rest = .ok r') :
    evalSyms ss t ((k, v) :: rest) = .ok ((k, v') :: r') := by
  rw [evalSyms_cons, h1, h2]

/-- `evalSyms` keeps the keys, in order -/
theorem evalSyms_keys {ss : List Stmt} {t : SymTab} : ∀ {x r : SymTab}, evalSyms ss t x = .ok r →
    r.map (·.1) = x.map (·.1) := by
  intro x
  induction x with
  | nil => intro r h; rw [evalSyms_nil] at h; cases h; rfl
  | cons kv rest ih =>
    intro r h
    obtain ⟨k, v⟩ := kv
    obtain ⟨v', r', _, h2, rfl⟩ := evalSyms_ok_cons h
    simp [ih h2]

theorem evalSyms_length {ss : List Stmt} {t x r : SymTab} (h : evalSyms ss t x = .ok r) : r.length = x.length := by
  have := congrArg List.length (evalSyms_keys h)
  simpa using this

/-- entry by entry: the `i`-th entry of the result is the `i`-th entry through `evalSym` -/
theorem evalSyms_getElem? {ss : List Stmt} {t : SymTab} : ∀ {x r : SymTab}, evalSyms ss t x = .ok r →
    ∀ (i : Nat) (k : Str) (v : Value), x[i]? = some (k, v) → ∃ v', evalSym ss t v = .ok v' ∧ r[i]? = some (k, v') := by
  intro x
  induction x with
  | nil => intro r _ i k v hx; simp at hx
  | cons kv rest ih =>
    intro r h i k v hx
    obtain ⟨k0, v0⟩ := kv
    obtain ⟨v', r', h1, h2, rfl⟩ := evalSyms_ok_cons h
    cases i with
    | zero => simp at hx; obtain ⟨rfl, rfl⟩ := hx; exact ⟨v', h1, by simp⟩
    | succ j => simpa using ih h2 j k v (by simpa using hx)

/-- lookups: the entry found under `k` is the old entry through `evalSym` -/
theorem evalSyms_get? {ss : List Stmt} {t : SymTab} : ∀ {x r : SymTab}, evalSyms ss t x = .ok r →
    ∀ (k : Str), (x.get? k = none ∧ r.get? k = none) ∨
      ∃ v v', x.get? k = some v ∧ evalSym ss t v = .ok v' ∧ r.get? k = some v' := by
  intro x
  induction x with
  | nil => intro r h k; rw [evalSyms_nil] at h; cases h; left; exact ⟨rfl, rfl⟩
  | cons kv rest ih =>
    intro r h k
    obtain ⟨k0, v0⟩ := kv
    obtain ⟨v', r', h1, h2, rfl⟩ := evalSyms_ok_cons h
    by_cases hk : (k0 == k) = true
    · right; exact ⟨v0, v', by simp [SymTab.get?, List.find?, hk], h1, by simp [SymTab.get?, List.find?, hk]⟩
    · have e1 : SymTab.get? ((k0, v0) :: rest) k = SymTab.get? rest k := by simp [SymTab.get?, List.find?, hk]
      have e2 : SymTab.get? ((k0, v') :: r') k = SymTab.get? r' k := by simp [SymTab.get?, List.find?, hk]
      rw [e1, e2]; exact ih h2 k

theorem evalSyms_append_ok {ss : List Stmt} {t : SymTab} : ∀ {x y r : SymTab}, evalSyms ss t (x ++ y) = .ok r →
    ∃ rx ry, evalSyms ss t x = .ok rx ∧ evalSyms ss t y = .ok ry ∧ r = rx ++ ry := by
  intro x
  induction x with
  | nil => intro y r h; exact ⟨[], r, rfl, h, rfl⟩
  | cons kv rest ih =>
    intro y r h
    obtain ⟨k, v⟩ := kv
    rw [List.cons_append] at h
    obtain ⟨v', r', h1, h2, rfl⟩ := evalSyms_ok_cons h
    obtain ⟨rx, ry, e1, e2, rfl⟩ := ih h2
    exact ⟨(k, v') :: rx, ry, evalSyms_cons_ok h1 e1, e2, rfl⟩

/-- a table without expression entries (no EQU defined by an expression) is left as it is -/
theorem evalSyms_plain (ss : List Stmt) (t : SymTab) : ∀ (x : SymTab),
    (∀ kv ∈ x, ∀ l r op m ae, kv.2 ≠ .expr l r op m ae) → evalSyms ss t x = .ok x := by
  intro x
  induction x with
  | nil => intro _; rfl
  | cons kv rest ih =>
    intro h
    obtain ⟨k, v⟩ := kv
    exact evalSyms_cons_ok (evalSym_plain ss t (h (k, v) (by simp))) (ih (fun kv hkv => h kv (by simp [hkv])))

/-! ### the per-statement step of `fixAll`: `fixOne` then `fitWidth` -/

/-- one step of the `fixAll` loop: `fix_addresses`, then `fit_operand_width` -/
def fixFit (ss : List Stmt) (i : Nat) (s : Stmt) : Outcome Stmt :=
  match fixOne ss i s with | .ok s1 => fitWidth s1 | o => o

theorem fixAll_cons (ss : List Stmt) (i : Nat) (s : Stmt) (rest : List Stmt) :
    fixAll ss i (s :: rest) =
      match fixFit ss i s with
      | .ok s' => (match fixAll ss (i + 1) rest with | .ok r => .ok (s' :: r) | o => o)
      | .diag => .diag
      | .internal => .internal
      | .diverged => .diverged := by
  rw [fixAll]; rfl

theorem fixFit_ok {ss : List Stmt} {i : Nat} {s s' : Stmt} :
    fixFit ss i s = .ok s' ↔ ∃ s1, fixOne ss i s = .ok s1 ∧ fitWidth s1 = .ok s' := by
  unfold fixFit
  cases h : fixOne ss i s with
  | ok s1 => simp
  | _ => simp

end CoCo.Asm
