/-
Lemmas/AddrOther.lean — `calculate_address_offset` (`addrOffset`) cut into its two halves: the "other"
operand of a label expression (`addrOther`: a second label's ADDRESS, a number, anything else is an
"unresolved expression" diagnostic) and the arithmetic on the two integers (`addrCombine`).
Shared by the Front*, Layout*, NoInt* and Encode* lemma families.
-/
import CoCoVerif.Model.Program

namespace CoCo.Asm
open CoCo

/-- the constant the "other" operand of a label expression contributes (signed since repair batch B2:
a number written or defined with a minus sign counts negatively) -/
def addrOther (ss : List Stmt) (other : Value) : Outcome Int :=
  if other.isAddress then
    (match other.int? with
     | some j => (match addrIntOf ss j with | some x => .ok (x : Int) | none => .internal)
     | none => .internal)
  else if other.isNumeric then (match other.int? with
                                | some n => .ok (if other.isNegative then -(n : Int) else n) | none => .internal)
  else .diag

/-- the arithmetic of `calculate_address_offset` on the label's address `a` and the constant `add` -/
def addrCombine (op : Char) (a : Nat) (add : Int) : Outcome Value :=
  let z : Option Int :=
    if op == '+' then some ((a : Int) + add) else if op == '-' then some (((a : Int) - add) % 65536)
    else if op == '*' then some ((a : Int) * add) else (if add = 0 then none else some (Int.tdiv (a : Int) add))
  match z with
  | none => .diag
  | some z => (match numericOfInt z (some 4) .extended with | .ok nv => .ok nv | .error _ => .diag)

theorem addrOffset_expr (ss : List Stmt) (l r : Value) (op : Char) (m : Mode) (ae : Bool) :
    addrOffset ss (.expr l r op m ae) =
      (match (if l.isAddress then l.int? else r.int?), addrOther ss (if l.isAddress then r else l) with
       | _, .diag => .diag
       | some ai, .ok add =>
         (match addrIntOf ss ai with
          | none => .internal
          | some a => addrCombine op a add)
       | _, _ => .internal) := rfl

theorem addrOffset_nonexpr (ss : List Stmt) (v : Value) (h : ∀ l r op m ae, v ≠ .expr l r op m ae) :
    addrOffset ss v = .internal := by
  cases v <;> first | rfl | exact absurd rfl (h _ _ _ _ _)

theorem addrCombine_cases (op : Char) (a : Nat) (add : Int) :
    addrCombine op a add = .diag ∨ ∃ v, addrCombine op a add = .ok v := by
  unfold addrCombine
  generalize (if (op == '+') = true then _ else _ : Option Int) = z
  cases z with
  | none => left; rfl
  | some z => dsimp only; cases numericOfInt z (some 4) .extended <;> simp

theorem addrCombine_ne_internal (op : Char) (a : Nat) (add : Int) : addrCombine op a add ≠ .internal := by
  rcases addrCombine_cases op a add with h | ⟨v, h⟩ <;> rw [h] <;> simp

theorem addrCombine_ne_diverged (op : Char) (a : Nat) (add : Int) : addrCombine op a add ≠ .diverged := by
  rcases addrCombine_cases op a add with h | ⟨v, h⟩ <;> rw [h] <;> simp

theorem addrOther_ne_diverged (ss : List Stmt) (v : Value) : addrOther ss v ≠ .diverged := by
  unfold addrOther
  repeat' split
  all_goals simp

/-- whether the other operand is an "unresolved expression" does not depend on the statement list -/
theorem addrOther_diag_iff (ss ss' : List Stmt) (v : Value) :
    addrOther ss v = .diag ↔ addrOther ss' v = .diag := by
  unfold addrOther
  repeat' split
  all_goals simp

/-- the other operand in closed form -/
theorem addrOther_address (ss : List Stmt) (j : Nat) (m : Mode) :
    addrOther ss (.address j m) = (match addrIntOf ss j with | some x => .ok (x : Int) | none => .internal) := rfl

theorem addrOther_numeric (ss : List Stmt) (k : Nat) (h : Option Nat) (m : Mode) (n : Bool) :
    addrOther ss (.numeric k h m n) = .ok (if n then -(k : Int) else k) := rfl

/-- a number without a sign contributes itself -/
theorem addrOther_numeric_pos (ss : List Stmt) (k : Nat) (h : Option Nat) (m : Mode) :
    addrOther ss (.numeric k h m false) = .ok (k : Int) := rfl

theorem addrOther_other (ss : List Stmt) (v : Value) (ha : v.isAddress = false) (hn : v.isNumeric = false) :
    addrOther ss v = .diag := by
  simp [addrOther, ha, hn]

/-! ### the per-statement step of `fixAll`: `fixOne` then `fitWidth` -/

/-- one step of the `fixAll` loop: `fix_addresses`, then `fit_operand_width` -/
def fixFit (ss : List Stmt) (i : Nat) (s : Stmt) : Outcome Stmt :=
  match fixOne ss i s with | .ok s1 => fitWidth s1 | o => o

theorem fixAll_cons (ss : List Stmt) (i : Nat) (s : Stmt) (rest : List Stmt) :
    fixAll ss i (s :: rest) =
      match fixFit ss i s with
      | .ok s' => (match fixAll ss (i + 1) rest with | .ok r => .ok (s' :: r) | o => o)
      | .diag => .diag
      | .internal => .internal
      | .diverged => .diverged := by
  rw [fixAll]; rfl

theorem fixFit_ok {ss : List Stmt} {i : Nat} {s s' : Stmt} :
    fixFit ss i s = .ok s' ↔ ∃ s1, fixOne ss i s = .ok s1 ∧ fitWidth s1 = .ok s' := by
  unfold fixFit
  cases h : fixOne ss i s with
  | ok s1 => simp
  | _ => simp

end CoCo.Asm
