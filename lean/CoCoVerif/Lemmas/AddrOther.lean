/-
Lemmas/AddrOther.lean — `calculate_address_offset` (`addrOffset`) cut into its two halves: the value of ONE
operand of a label expression (`addrOperand`, model: a label's ADDRESS, a signed number, anything else is an
"unresolved expression" diagnostic) and the arithmetic on the two integers IN THE WRITTEN ORDER (`addrCombine`;
repair batch B3: left `op` right, a result below zero is reduced modulo 65536 for every operator).
Shared by the Front*, Layout*, NoInt* and Encode* lemma families.
-/
import CoCoVerif.Model.Program

namespace CoCo.Asm
open CoCo

/-- the arithmetic of `calculate_address_offset` on the two operand values `a` (left) and `b` (right) -/
def addrCombine (op : Char) (a b : Int) : Outcome Value :=
  let z : Option Int :=
    if op == '+' then some (a + b) else if op == '-' then some (a - b)
    else if op == '*' then some (a * b) else (if b = 0 then none else some (Int.tdiv a b))
  match z with
  | none => .diag
  | some z => (match numericOfInt (if z < 0 then z % 65536 else z) (some 4) .extended with | .ok nv => .ok nv | .error _ => .diag)

/-- `addrOffset` in closed form: both operands through `addrOperand` (left first), then `addrCombine` -/
theorem addrOffset_expr (ss : List Stmt) (l r : Value) (op : Char) (m : Mode) (ae : Bool) :
    addrOffset ss (.expr l r op m ae) =
      (match addrOperand ss l with
       | .ok a =>
         (match addrOperand ss r with
          | .ok b => addrCombine op a b
          | .diag => .diag
          | .internal => .internal
          | .diverged => .diverged)
       | .diag => .diag
       | .internal => .internal
       | .diverged => .diverged) := by
  simp only [addrOffset, addrCombine]
  cases addrOperand ss l <;> try rfl
  cases addrOperand ss r <;> rfl

theorem addrOffset_nonexpr (ss : List Stmt) (v : Value) (h : ∀ l r op m ae, v ≠ .expr l r op m ae) :
    addrOffset ss v = .internal := by
  cases v <;> first | rfl | exact absurd rfl (h _ _ _ _ _)

theorem addrCombine_cases (op : Char) (a b : Int) :
    addrCombine op a b = .diag ∨ ∃ v, addrCombine op a b = .ok v := by
  unfold addrCombine
  generalize (if (op == '+') = true then _ else _ : Option Int) = z
  cases z with
  | none => left; rfl
  | some z => dsimp only; cases numericOfInt (if z < 0 then z % 65536 else z) (some 4) .extended <;> simp

theorem addrCombine_ne_internal (op : Char) (a b : Int) : addrCombine op a b ≠ .internal := by
  rcases addrCombine_cases op a b with h | ⟨v, h⟩ <;> rw [h] <;> simp

theorem addrCombine_ne_diverged (op : Char) (a b : Int) : addrCombine op a b ≠ .diverged := by
  rcases addrCombine_cases op a b with h | ⟨v, h⟩ <;> rw [h] <;> simp

theorem addrOperand_ne_diverged (ss : List Stmt) (v : Value) : addrOperand ss v ≠ .diverged := by
  unfold addrOperand
  repeat' split
  all_goals simp

/-- whether an operand is an "unresolved expression" does not depend on the statement list -/
theorem addrOperand_diag_iff (ss ss' : List Stmt) (v : Value) :
    addrOperand ss v = .diag ↔ addrOperand ss' v = .diag := by
  unfold addrOperand
  repeat' split
  all_goals simp

/-- one operand in closed form -/
theorem addrOperand_address (ss : List Stmt) (j : Nat) (m : Mode) :
    addrOperand ss (.address j m) = (match addrIntOf ss j with | some x => .ok (x : Int) | none => .internal) := rfl

theorem addrOperand_numeric (ss : List Stmt) (k : Nat) (h : Option Nat) (m : Mode) (n : Bool) :
    addrOperand ss (.numeric k h m n) = .ok (if n then -(k : Int) else k) := rfl

/-- a number without a sign contributes itself -/
theorem addrOperand_numeric_pos (ss : List Stmt) (k : Nat) (h : Option Nat) (m : Mode) :
    addrOperand ss (.numeric k h m false) = .ok (k : Int) := rfl

theorem addrOperand_other (ss : List Stmt) (v : Value) (ha : v.isAddress = false) (hn : v.isNumeric = false) :
    addrOperand ss v = .diag := by
  simp [addrOperand, ha, hn]

/-- success of `addrOffset` splits into the two operands and the arithmetic -/
theorem addrOffset_ok {ss : List Stmt} {l r : Value} {op : Char} {m : Mode} {ae : Bool} {v : Value} :
    addrOffset ss (.expr l r op m ae) = .ok v ↔
      ∃ a b, addrOperand ss l = .ok a ∧ addrOperand ss r = .ok b ∧ addrCombine op a b = .ok v := by
  rw [addrOffset_expr]
  cases addrOperand ss l <;> cases addrOperand ss r <;> simp

/-! ### the per-statement step of `fixAll`: `fixOne` then `fitWidth` -/

/-- one step of the `fixAll` loop: `fix_addresses`, then `fit_operand_width` -/
def fixFit (ss : List Stmt) (i : Nat) (s : Stmt) : Outcome Stmt :=
  match fixOne ss i s with | .ok s1 => fitWidth s1 | o => o

theorem fixAll_cons (ss : List Stmt) (i : Nat) (s : Stmt) (rest : List Stmt) :
    fixAll ss i (s :: rest) =
      match fixFit ss i s with
      | .ok s' => (match fixAll ss (i + 1) rest with | .ok r => .ok (s' :: r) | o => o)
      | .diag => .diag
      | .internal => .internal
      | .diverged => .diverged := by
  rw [fixAll]; rfl

theorem fixFit_ok {ss : List Stmt} {i : Nat} {s s' : Stmt} :
    fixFit ss i s = .ok s' ↔ ∃ s1, fixOne ss i s = .ok s1 ∧ fitWidth s1 = .ok s' := by
  unfold fixFit
  cases h : fixOne ss i s with
  | ok s1 => simp
  | _ => simp

end CoCo.Asm
