/-
Lemmas/PcrWidthTr.lean — what `translateOperand` guarantees about `size`, `maxSize`, `choices` and the
`additional` of an undecided PCR statement (input to the width invariant of the size loop, property C03).
-/
import CoCoVerif.Lemmas.NoIntFix

namespace CoCo.Asm
open CoCo
open CoCo.Gen (InstrRow)

/-- how the `additional` of an undecided PCR package relates to the resolved left-hand side `v` of the operand:
a plain label (statement index `b`) is stored as the NUMBER `b`, anything else as it is -/
def AddlOf (v a : Value) : Prop :=
  match v with
  | .address b _ => ∃ h m, a = .numeric b h m false
  | v => a = v

/-- the width facts of a translated package -/
structure PkgW (row : InstrRow) (p : Pkg) : Prop where
  le : p.size ≤ p.maxSize
  und : p.choices ≠ [] → p.maxSize = p.size + 2 ∧ p.size = row.indSz ∧ p.needsRes = true ∧
    opVal row.ind = .ok p.opCode

theorem PkgW.of_nil {row : InstrRow} {p : Pkg} (h1 : p.size ≤ p.maxSize) (h2 : p.choices = []) : PkgW row p :=
  ⟨h1, fun h => absurd h2 h⟩

theorem offBody_w {ind : Bool} {row : InstrRow} {right : Str} {raw0 : Nat} {needs : Bool} {l : Value}
    {p : Pkg} (h : offBody ind row right raw0 needs l = .ok p) :
    PkgW row p ∧ (p.needsRes = true → p.additional = l) := by
  unfold offBody at h
  simp only [bind, Except.bind, pure, Except.pure, throw, throwThe, MonadExceptOf.throw] at h
  repeat' split at h
  all_goals first
    | (cases h; done)
    | (cases h
       refine ⟨.of_nil (Nat.le_refl _) rfl, ?_⟩
       intro hh
       first | rfl | contradiction | cases hh)
    | (cases h; exact ⟨⟨by show row.indSz ≤ row.indSz + 2; omega, fun _ => ⟨rfl, rfl, rfl, ‹opVal row.ind = _›⟩⟩, fun _ => rfl⟩)

theorem translateOffset_w {ind : Bool} {row : InstrRow} {left : Value} {right : Str} {raw0 : Nat} {p : Pkg}
    (h : translateOffset ind row left right raw0 = .ok p) :
    PkgW row p ∧ (p.needsRes = true → AddlOf left p.additional) := by
  rw [translateOffset_eq] at h
  split at h
  · cases h
  · split at h
    · cases h
    · rename_i i m
      split at h
      · rename_i l hnum
        obtain ⟨hh, mm, rfl, _⟩ := numV_eq hnum
        obtain ⟨h1, h2⟩ := offBody_w h
        exact ⟨h1, fun hc => ⟨hh, mm, h2 hc⟩⟩
      · cases h
    · rename_i v hv1 hv2
      obtain ⟨h1, h2⟩ := offBody_w h
      refine ⟨h1, fun hc => ?_⟩
      have := h2 hc
      unfold AddlOf
      split
      · exact absurd rfl (hv2 _ _)
      · exact this

/-- `additional` of a package `fix_addresses` has to resolve (an undecided PCR operand, or — batch B3 — the label offset
of a pointer register) in terms of the operand's left-hand side -/
def LeftOK (o : Operand) (p : Pkg) : Prop :=
  p.needsRes = true → ∀ v, o.left = .val v → AddlOf v p.additional

theorem leftOK_of {o : Operand} {p : Pkg} {w : Value} (hl : o.left = .val w)
    (h2 : p.needsRes = true → AddlOf w p.additional) : LeftOK o p := by
  intro hc v hv; rw [hl] at hv; cases hv; exact h2 hc

theorem leftOK_of_text {o : Operand} {p : Pkg} {l : Str} (hl : o.left = .text l) : LeftOK o p := by
  intro hc v hv; rw [hl] at hv; cases hv

theorem translateIndexed_w {row : InstrRow} {o : Operand} {p : Pkg} (h : translateIndexed o row = .ok p) :
    PkgW row p ∧ LeftOK o p := by
  unfold translateIndexed at h
  simp only [bind, Except.bind, pure, Except.pure, throw, throwThe, MonadExceptOf.throw] at h
  repeat' split at h
  all_goals first
    | (cases h; done)
    | (cases h; exact ⟨.of_nil (Nat.le_refl _) rfl, nofun⟩)
    | (obtain ⟨h1, h2⟩ := translateOffset_w h
       exact ⟨h1, leftOK_of (by assumption) h2⟩)
    | (obtain ⟨h1, h2⟩ := translateOffset_w h
       exact ⟨h1, leftOK_of_text (by assumption)⟩)

theorem translateExtIndirect_w {row : InstrRow} {o : Operand} {p : Pkg} (h : translateExtIndirect o row = .ok p) :
    PkgW row p ∧ LeftOK o p := by
  unfold translateExtIndirect at h
  rcases o with ⟨kind, text, value, left, right⟩
  cases left <;> cases right
  all_goals simp only [bind, Except.bind, pure, Except.pure, throw, throwThe, MonadExceptOf.throw, Bool.and_false,
    Bool.false_eq_true, if_false] at h
  case val.some =>
    by_cases hc : (row.ind.isNone || row.ind == some 0) = true
    · rw [if_pos hc] at h; cases h
    rw [if_neg hc] at h
    generalize translateIndexed.match_3 (fun x => Bool) (Side.val _) _ _ _ = b at h
    repeat' split at h
    all_goals first
    | (cases h; done)
    | (cases h; exact ⟨.of_nil (Nat.le_refl _) rfl, nofun⟩)
    | (obtain ⟨h1, h2⟩ := translateOffset_w h
       exact ⟨h1, leftOK_of rfl h2⟩)
  case text.some =>
    by_cases hc : (row.ind.isNone || row.ind == some 0) = true
    · rw [if_pos hc] at h; cases h
    rw [if_neg hc] at h
    generalize translateIndexed.match_3 (fun x => Bool) (Side.text _) _ _ _ = b at h
    generalize (if (_ == ['A']) = true then 22 else if (_ == ['B']) = true then 21 else 27 : Nat) = k at h
    repeat' split at h
    all_goals first
    | (cases h; done)
    | (cases h; exact ⟨.of_nil (Nat.le_refl _) rfl, nofun⟩)
    | (obtain ⟨h1, h2⟩ := translateOffset_w h
       exact ⟨h1, leftOK_of_text rfl⟩)
  all_goals
    repeat' split at h
    all_goals first
    | (cases h; done)
    | (cases h; exact ⟨.of_nil (Nat.le_refl _) rfl, nofun⟩)

theorem translatePseudo_w {row : InstrRow} {o : Operand} {p : Pkg} (h : translatePseudo o row = .ok p) :
    PkgW row p ∧ LeftOK o p := by
  unfold translatePseudo at h
  simp only [bind, Except.bind, pure, Except.pure, throw, throwThe, MonadExceptOf.throw] at h
  repeat' split at h
  all_goals first
    | (cases h; done)
    | (cases h; exact ⟨.of_nil (Nat.le_refl _) rfl, nofun⟩)

theorem translateSpecial_w {row : InstrRow} {o : Operand} {p : Pkg} (h : translateSpecial o row = .ok p) :
    PkgW row p ∧ LeftOK o p := by
  unfold translateSpecial at h
  simp only [bind, Except.bind, pure, Except.pure, throw, throwThe, MonadExceptOf.throw] at h
  repeat' split at h
  all_goals first
    | (cases h; done)
    | (cases h; exact ⟨.of_nil (Nat.le_refl _) rfl, nofun⟩)

/-- **every translated package has `size ≤ maxSize`**; a package with post-byte choices (an undecided PCR
operand) has `maxSize = size + 2`, the indexed base size, and the label (expression) in `additional` -/
theorem translateOperand_w {row : InstrRow} {o : Operand} {p : Pkg} (h : translateOperand o row = .ok p) :
    PkgW row p ∧ LeftOK o p := by
  unfold translateOperand at h
  cases hk : o.kind <;> simp only [hk] at h
  case pseudo => exact translatePseudo_w h
  case special => exact translateSpecial_w h
  case indexed => exact translateIndexed_w h
  case extIndirect => exact translateExtIndirect_w h
  all_goals
    try simp only [bind, Except.bind, pure, Except.pure, throw, throwThe, MonadExceptOf.throw] at h
    repeat' split at h
    all_goals first
      | (cases h; done)
      | (cases h; exact ⟨.of_nil (Nat.le_refl _) rfl, nofun⟩)

end CoCo.Asm
