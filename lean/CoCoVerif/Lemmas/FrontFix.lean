/-
Lemmas/FrontFix.lean — helper lemmas for C18-R4: `fix_addresses` (`fixOne` / `fixAll`), the final
symbol table and the image of a program `a ++ b` restricted to `a`.
-/
import CoCoVerif.Lemmas.FrontAppend
import CoCoVerif.Lemmas.AddrOther
import CoCoVerif.Lemmas.EvalLists

namespace CoCo.Asm
open CoCo

/-! ### lookups that succeed in a prefix succeed in the whole list -/

theorem getElem?_append_some {α} {ra rb : List α} {j : Nat} {x : α} (h : ra[j]? = some x) :
    (ra ++ rb)[j]? = some x := by
  have hj : j < ra.length := (List.getElem?_eq_some_iff.mp h).1
  rw [List.getElem?_append_left hj, h]

theorem addrOf_append {ra rb : List Stmt} {j : Nat} {v : Value} (h : addrOf ra j = some v) :
    addrOf (ra ++ rb) j = some v := by
  unfold addrOf at h ⊢
  cases hx : ra[j]? with
  | none => rw [hx] at h; cases h
  | some x => rw [getElem?_append_some hx]; rw [hx] at h; exact h

theorem addrIntOf_append {ra rb : List Stmt} {j n : Nat} (h : addrIntOf ra j = some n) :
    addrIntOf (ra ++ rb) j = some n := by
  unfold addrIntOf at h ⊢
  cases hx : addrOf ra j with
  | none => rw [hx] at h; cases h
  | some x => rw [addrOf_append hx]; rw [hx] at h; exact h

theorem addrOperand_append {ra rb : List Stmt} {v : Value} {n : Int} (h : addrOperand ra v = .ok n) :
    addrOperand (ra ++ rb) v = .ok n := by
  unfold addrOperand at h ⊢
  by_cases hA : v.isAddress = true
  · rw [if_pos hA] at h ⊢
    cases hi : v.int? with
    | none => rw [hi] at h; cases h
    | some j =>
      rw [hi] at h
      dsimp only at h ⊢
      cases hj : addrIntOf ra j with
      | none => rw [hj] at h; cases h
      | some a => rw [addrIntOf_append hj]; rw [hj] at h; exact h
  · rw [if_neg hA] at h ⊢; exact h

theorem addrOffset_append {ra rb : List Stmt} {v x : Value} (h : addrOffset ra v = .ok x) :
    addrOffset (ra ++ rb) v = .ok x := by
  cases v with
  | expr l r op m ae =>
    obtain ⟨a, b, h1, h2, h3⟩ := addrOffset_ok.1 h
    exact addrOffset_ok.2 ⟨a, b, addrOperand_append h1, addrOperand_append h2, h3⟩
  | _ => cases h

theorem sumSizes_append {ra rb : List Stmt} {lo hi : Nat} (h : hi ≤ ra.length) :
    sumSizes (ra ++ rb) lo hi = sumSizes ra lo hi := by
  unfold sumSizes
  by_cases hlo : lo ≤ ra.length
  · rw [List.drop_append_of_le_length hlo, List.take_append_of_le_length (by simp [List.length_drop]; omega)]
  · have : hi - lo = 0 := by omega
    rw [this]; simp

theorem sumSize_append {ra rb : List Stmt} {lo hi : Nat} (h : hi ≤ ra.length) :
    sumSize (ra ++ rb) lo hi = sumSize ra lo hi := by
  unfold sumSize; rw [sumSizes_append h]

/-! ### `fixOne` cut into pieces -/

def fixBranch (ss : List Stmt) (i : Nat) (s : Stmt) : Outcome Stmt :=
  match s.pkg.additional.int? with
  | none => .internal
  | some b =>
    let short := s.row.isShortBranch
    let hint := if short then 2 else 4
    if b ≤ i then
      let len := 1 + sumSize ss b (i + 1)
      if (short ∧ len > 129) ∨ len > 0x10000 then .diag
      else match numericOfInt ((if short then (0x101 : Int) else 0x10001) - len) (some hint) .none with
        | .ok v => .ok { s with pkg := { s.pkg with additional := v } }
        | .error _ => .internal
    else
      let len := sumSize ss (i + 1) b
      if (short ∧ len > 127) ∨ len > 0xFFFF then .diag
      else match numericOfInt len (some hint) .none with
        | .ok v => .ok { s with pkg := { s.pkg with additional := v } }
        | .error _ => .internal

def fixPart1 (ss : List Stmt) (s : Stmt) (ov : Value) : Outcome Stmt :=
  if ov.isAddrExpr then
    (match addrOffset ss ov with
     | .ok v => .ok { s with pkg := { s.pkg with additional := v } }
     | .diag => .diag | .internal => .internal | .diverged => .diverged)
  else .ok s

def fixPart2 (ss : List Stmt) (ov : Value) (s1 : Stmt) : Outcome Stmt :=
  if ov.isAddress then
    match ov.int? with
    | some t => (match addrOf ss t with
                 | some a => .ok { s1 with pkg := { s1.pkg with additional := a } }
                 | none => .internal)
    | none => .internal
  else .ok s1

def fixRelTarget (ss : List Stmt) (s2 : Stmt) : Outcome Nat :=
  let idx := s2.operand.kind == .indexed || s2.operand.kind == .extIndirect
  let leftV : Option Value := match s2.pkg.additional with | .expr _ _ _ _ true => some s2.pkg.additional | _ => none
  match idx, leftV with
  | true, some e => (match addrOffset ss e with
                     | .ok v => (match v.int? with | some n => .ok n | none => .internal)
                     | .diag => .diag | .internal => .internal | .diverged => .diverged)
  | _, _ => (match s2.pkg.additional.int? with
             | some t => (match addrIntOf ss t with | some a => .ok a | none => .internal)
             | none => .internal)

/-- (batch B3) a label as constant offset of a pointer register: the target address is the offset -/
def fixPartAbs (ss : List Stmt) (s2 : Stmt) : Outcome Stmt :=
  match fixRelTarget ss s2 with
  | .ok r => (match numericOfInt r (some 4) .none with
              | .ok v => .ok { s2 with pkg := { s2.pkg with additional := v } }
              | .error _ => .internal)
  | .diag => .diag
  | _ => .internal

def fixPart3 (ss : List Stmt) (i : Nat) (s2 : Stmt) : Outcome Stmt :=
  if s2.pkg.needsRes then
    if s2.pkg.choices.isEmpty then fixPartAbs ss s2 else
    match fixRelTarget ss s2, addrIntOf ss i with
    | .ok r, some start =>
      let jump : Int := (r : Int) - start - s2.pkg.size
      let jump : Int := (jump + 0x8000) % 0x10000 - 0x8000
      if s2.pcrHint ≠ 4 ∧ (jump < -128 ∨ jump > 127) then .diag else
      let jump : Int := if s2.pcrHint = 4 then jump % 0x10000 else jump
      (match numericOfInt jump (some s2.pcrHint) .none with
       | .ok v => .ok { s2 with pkg := { s2.pkg with additional := v } }
       | .error _ => .internal)
    | .ok _, none => .internal
    | .diag, _ => .diag
    | _, _ => .internal
  else .ok s2

def fixNonRel (ss : List Stmt) (i : Nat) (s : Stmt) (ov : Value) : Outcome Stmt :=
  match fixPart1 ss s ov with
  | .ok s1 =>
    (match fixPart2 ss ov s1 with
     | .ok s2 => fixPart3 ss i s2
     | o => o)
  | o => o

theorem fixOne_eq (ss : List Stmt) (i : Nat) (s : Stmt) :
    fixOne ss i s =
      if s.operand.kind == .relative then fixBranch ss i s
      else match s.operand.value with
        | .pyNone => .internal
        | ov => fixNonRel ss i s ov := by
  rfl

theorem fixBranch_append {ra rb : List Stmt} {i : Nat} {s : Stmt} (hi : i < ra.length)
    (hb : ∀ b, s.pkg.additional.int? = some b → b ≤ ra.length) :
    fixBranch (ra ++ rb) i s = fixBranch ra i s := by
  unfold fixBranch
  cases hbb : s.pkg.additional.int? with
  | none => rfl
  | some b =>
    dsimp only
    rw [sumSize_append (show i + 1 ≤ ra.length by omega), sumSize_append (hb b hbb)]

theorem fixPart1_append {ra rb : List Stmt} {s x : Stmt} {ov : Value} (h : fixPart1 ra s ov = .ok x) :
    fixPart1 (ra ++ rb) s ov = .ok x := by
  unfold fixPart1 at h ⊢
  split at h
  · rename_i hc
    rw [if_pos hc]
    cases ho : addrOffset ra ov with
    | ok v => rw [addrOffset_append ho]; rw [ho] at h; exact h
    | _ => rw [ho] at h; cases h
  · rename_i hc; rw [if_neg hc]; exact h

theorem fixPart2_append {ra rb : List Stmt} {s1 x : Stmt} {ov : Value} (h : fixPart2 ra ov s1 = .ok x) :
    fixPart2 (ra ++ rb) ov s1 = .ok x := by
  unfold fixPart2 at h ⊢
  split at h
  · rename_i hc
    rw [if_pos hc]
    cases ht : ov.int? with
    | none => rw [ht] at h; cases h
    | some t =>
      rw [ht] at h
      dsimp only at h ⊢
      cases ha : addrOf ra t with
      | none => rw [ha] at h; cases h
      | some a => rw [addrOf_append ha]; rw [ha] at h; exact h
  · rename_i hc; rw [if_neg hc]; exact h

theorem fixRelTarget_append {ra rb : List Stmt} {s2 : Stmt} {n : Nat} (h : fixRelTarget ra s2 = .ok n) :
    fixRelTarget (ra ++ rb) s2 = .ok n := by
  unfold fixRelTarget at h ⊢
  dsimp only at h ⊢
  split at h
  · rename_i e hidx hleft
    cases ho : addrOffset ra e with
    | ok v => rw [addrOffset_append ho]; rw [ho] at h; exact h
    | _ => rw [ho] at h; cases h
  · rename_i x y hnot
    have hgoal : (match s2.pkg.additional.int? with
        | some t => (match addrIntOf (ra ++ rb) t with | some a => Outcome.ok a | none => .internal)
        | none => .internal) = Outcome.ok n := by
      cases ht : s2.pkg.additional.int? with
      | none => rw [ht] at h; cases h
      | some t =>
        rw [ht] at h
        dsimp only at h ⊢
        cases ha : addrIntOf ra t with
        | none => rw [ha] at h; cases h
        | some a => rw [addrIntOf_append ha]; rw [ha] at h; exact h
    exact hgoal

theorem fixPart3_append {ra rb : List Stmt} {i : Nat} {s2 x : Stmt} (h : fixPart3 ra i s2 = .ok x) :
    fixPart3 (ra ++ rb) i s2 = .ok x := by
  unfold fixPart3 at h ⊢
  split at h
  · rename_i hc
    rw [if_pos hc]
    by_cases he : s2.pkg.choices.isEmpty = true
    · rw [if_pos he] at h ⊢
      unfold fixPartAbs at h ⊢
      cases hr : fixRelTarget ra s2 with
      | ok r => rw [hr] at h; rw [fixRelTarget_append hr]; exact h
      | _ => rw [hr] at h; cases h
    rw [if_neg he] at h ⊢
    cases hr : fixRelTarget ra s2 with
    | ok r =>
      rw [hr] at h
      cases hs : addrIntOf ra i with
      | none => rw [hs] at h; cases h
      | some start =>
        rw [hs] at h
        rw [fixRelTarget_append hr, addrIntOf_append hs]
        exact h
    | diag => rw [hr] at h; cases h
    | internal => rw [hr] at h; cases h
    | diverged => rw [hr] at h; cases h
  · rename_i hc; rw [if_neg hc]; exact h

theorem fixNonRel_append {ra rb : List Stmt} {i : Nat} {s x : Stmt} {ov : Value}
    (h : fixNonRel ra i s ov = .ok x) : fixNonRel (ra ++ rb) i s ov = .ok x := by
  unfold fixNonRel at h ⊢
  cases h1 : fixPart1 ra s ov with
  | ok s1 =>
    rw [h1] at h
    rw [fixPart1_append h1]
    dsimp only at h ⊢
    cases h2 : fixPart2 ra ov s1 with
    | ok s2 =>
      rw [h2] at h
      rw [fixPart2_append h2]
      exact fixPart3_append h
    | _ => rw [h2] at h; cases h
  | _ => rw [h1] at h; cases h

/-- a statement of the prefix is patched in the same way inside the longer list; for a relative
branch the target index must not lie beyond the end of the prefix -/
theorem fixOne_append {ra rb : List Stmt} {i : Nat} {s x : Stmt} (hi : i < ra.length)
    (hb : s.operand.kind = .relative → ∀ b, s.pkg.additional.int? = some b → b ≤ ra.length)
    (h : fixOne ra i s = .ok x) : fixOne (ra ++ rb) i s = .ok x := by
  rw [fixOne_eq] at h ⊢
  split at h
  · rename_i hk
    rw [if_pos hk, fixBranch_append hi (hb (by simpa using hk))]
    exact h
  · rename_i hk
    rw [if_neg hk]
    cases hov : s.operand.value <;> rw [hov] at h <;> first | exact fixNonRel_append h | cases h

/-! ### `fixAll` -/

/-- relative branches of `x` aim at an index that is at most `n` -/
def BranchInside (n : Nat) (x : List Stmt) : Prop :=
  ∀ s ∈ x, s.operand.kind = .relative → ∀ b, s.pkg.additional.int? = some b → b ≤ n

theorem fixFit_append {ra rb : List Stmt} {i : Nat} {s x : Stmt} (hi : i < ra.length)
    (hb : s.operand.kind = .relative → ∀ b, s.pkg.additional.int? = some b → b ≤ ra.length)
    (h : fixFit ra i s = .ok x) : fixFit (ra ++ rb) i s = .ok x := by
  obtain ⟨s1, h1, h2⟩ := fixFit_ok.1 h
  exact fixFit_ok.2 ⟨s1, fixOne_append hi hb h1, h2⟩

theorem fixAll_append_ok (ss : List Stmt) : ∀ (x y : List Stmt) (i : Nat) (r : List Stmt),
    fixAll ss i (x ++ y) = .ok r →
    ∃ rx ry, fixAll ss i x = .ok rx ∧ fixAll ss (i + x.length) y = .ok ry ∧ r = rx ++ ry := by
  intro x
  induction x with
  | nil => intro y i r h; exact ⟨[], r, rfl, by simpa using h, rfl⟩
  | cons s rest ih =>
    intro y i r h
    rw [List.cons_append, fixAll_cons] at h
    rw [fixAll_cons]
    cases h1 : fixFit ss i s with
    | ok s' =>
      rw [h1] at h
      dsimp only at h ⊢
      cases h2 : fixAll ss (i + 1) (rest ++ y) with
      | ok r2 =>
        rw [h2] at h
        obtain ⟨rx, ry, e1, e2, e3⟩ := ih _ _ _ h2
        rw [e1]
        simp only [Outcome.ok.injEq] at h
        refine ⟨s' :: rx, ry, rfl, ?_, by rw [← h, e3]; rfl⟩
        rw [← e2]; congr 1; simp; omega
      | _ => rw [h2] at h; cases h
    | _ => rw [h1] at h; cases h

theorem fixAll_mono {ra rb : List Stmt} : ∀ (x : List Stmt) (i : Nat) (r : List Stmt),
    i + x.length ≤ ra.length → BranchInside ra.length x →
    fixAll ra i x = .ok r → fixAll (ra ++ rb) i x = .ok r := by
  intro x
  induction x with
  | nil => intro i r _ _ h; exact h
  | cons s rest ih =>
    intro i r hlen hb h
    rw [fixAll_cons] at h ⊢
    cases h1 : fixFit ra i s with
    | ok s' =>
      rw [h1] at h
      rw [fixFit_append (by simp at hlen; omega) (hb s (by simp)) h1]
      dsimp only at h ⊢
      cases h2 : fixAll ra (i + 1) rest with
      | ok r2 =>
        rw [ih _ _ (by simp at hlen; omega) (fun y hy => hb y (by simp [hy])) h2]
        rw [h2] at h; exact h
      | _ => rw [h2] at h; cases h
    | _ => rw [h1] at h; cases h

/-! ### final symbol table -/

theorem finalSymTab_append_ok (ss : List Stmt) : ∀ (t d : SymTab) (r : SymTab),
    finalSymTab ss (t ++ d) = .ok r → ∃ r1 rd, finalSymTab ss t = .ok r1 ∧ r = r1 ++ rd := by
  intro t
  induction t with
  | nil => intro d r h; exact ⟨[], r, rfl, rfl⟩
  | cons kv rest ih =>
    intro d r h
    obtain ⟨k, v⟩ := kv
    rw [List.cons_append, finalSymTab] at h
    rw [finalSymTab]
    cases h1 : finalSymTab ss (rest ++ d) with
    | ok r2 =>
      rw [h1] at h
      obtain ⟨r1, rd, e1, e2⟩ := ih _ _ h1
      rw [e1]
      dsimp only at h ⊢
      subst e2
      cases v with
      | address i m =>
        dsimp only at h ⊢
        cases ha : addrOf ss i with
        | none => rw [ha] at h; cases h
        | some a =>
          rw [ha] at h
          simp only [Outcome.ok.injEq] at h
          exact ⟨_, rd, rfl, by rw [← h]; rfl⟩
      | pyNone => cases h
      | _ =>
        simp only [Outcome.ok.injEq] at h
        exact ⟨_, rd, rfl, by rw [← h]; rfl⟩
    | _ => rw [h1] at h; cases h

theorem finalSymTab_mono {ra rb : List Stmt} : ∀ (t r : SymTab),
    finalSymTab ra t = .ok r → finalSymTab (ra ++ rb) t = .ok r := by
  intro t
  induction t with
  | nil => intro r h; exact h
  | cons kv rest ih =>
    intro r h
    obtain ⟨k, v⟩ := kv
    rw [finalSymTab] at h ⊢
    cases h1 : finalSymTab ra rest with
    | ok r2 =>
      rw [h1] at h
      rw [ih _ h1]
      dsimp only at h ⊢
      cases v with
      | address i m =>
        dsimp only at h ⊢
        cases ha : addrOf ra i with
        | none => rw [ha] at h; cases h
        | some a => rw [addrOf_append ha]; rw [ha] at h; exact h
      | _ => exact h
    | _ => rw [h1] at h; cases h

/-! ### the evaluation of the EQU expressions (batch 4) -/

theorem SymTab.le_append (t d : SymTab) : SymTab.Le t (t ++ d) :=
  fun _ _ hk => SymTab.get?_append_of_some hk

/-- an entry that is evaluated successfully against a table and a statement list evaluates to the same value against a
longer table and a longer statement list -/
theorem evalSym_mono {ra rb : List Stmt} {t t' : SymTab} (hle : SymTab.Le t t')
    {v v' : Value} (h : evalSym ra t v = .ok v') : evalSym (ra ++ rb) t' v = .ok v' := by
  cases v with
  | expr l r op m ae =>
    rw [evalSym_expr] at h ⊢
    cases hr : (Value.expr l r op m ae).resolve t with
    | error e => rw [hr] at h; cases h
    | ok x =>
      rw [hr] at h
      rw [Value.resolve_mono hle hr]
      dsimp only at h ⊢
      by_cases hx : x.isAddrExpr = true
      · rw [if_pos hx] at h ⊢
        cases ho : addrOffset ra x with
        | ok y => rw [addrOffset_append ho]; rw [ho] at h; exact h
        | _ => rw [ho] at h; cases h
      · rw [if_neg hx] at h ⊢; exact h
  | _ => exact h

theorem evalSyms_mono {ra rb : List Stmt} {t t' : SymTab} (hle : SymTab.Le t t') :
    ∀ {x r : SymTab}, evalSyms ra t x = .ok r → evalSyms (ra ++ rb) t' x = .ok r := by
  intro x
  induction x with
  | nil => intro r h; exact h
  | cons kv rest ih =>
    intro r h
    obtain ⟨k, v⟩ := kv
    obtain ⟨v', r', h1, h2, rfl⟩ := evalSyms_ok_cons h
    exact evalSyms_cons_ok (evalSym_mono hle h1) (ih h2)

/-! ### the FCB / FDB lists (batch 8) -/

theorem elemNum_mono {ra rb : List Stmt} {r y : Value} (h : elemNum ra r = .ok y) : elemNum (ra ++ rb) r = .ok y := by
  unfold elemNum at h ⊢
  by_cases hA : r.isAddress = true
  · rw [if_pos hA] at h ⊢
    cases hi : r.int? with
    | none => rw [hi] at h; cases h
    | some j =>
      rw [hi] at h; dsimp only at h ⊢
      cases ha : addrOf ra j with
      | none => rw [ha] at h; cases h
      | some a => rw [addrOf_append ha]; rw [ha] at h; exact h
  · rw [if_neg hA] at h ⊢
    by_cases hE : r.isAddrExpr = true
    · rw [if_pos hE] at h ⊢; exact addrOffset_append h
    · rw [if_neg hE] at h ⊢; exact h

/-- an evaluated list element stays what it is under a longer table and a longer statement list -/
theorem evalElem_mono {ra rb : List Stmt} {t t' : SymTab} (hle : SymTab.Le t t') {w : Nat} {x h : Str}
    (he : evalElem ra t w x = .ok h) : evalElem (ra ++ rb) t' w x = .ok h := by
  rw [evalElem_eq] at he ⊢
  cases hc : create 4 x false false true with
  | error e => rw [hc] at he; cases he
  | ok v =>
    rw [hc] at he; dsimp only at he ⊢
    cases hr : v.resolve t with
    | error e => rw [hr] at he; cases he
    | ok r =>
      rw [hr] at he; dsimp only at he
      rw [Value.resolve_mono hle hr]; dsimp only
      obtain ⟨n, a, b, neg, f, h1, _, _⟩ := elemRender_ok he
      rw [elemNum_mono h1]; rw [h1] at he; exact he

theorem evalElems_mono {ra rb : List Stmt} {t t' : SymTab} (hle : SymTab.Le t t') {w : Nat} :
    ∀ {xs hs r : List Str}, evalElems ra t w xs hs = .ok r → evalElems (ra ++ rb) t' w xs hs = .ok r := by
  intro xs
  induction xs with
  | nil => intro hs r h; rw [evalElems_nil_left] at h ⊢; exact h
  | cons x xs ih =>
    intro hs r h
    cases hs with
    | nil => rw [evalElems_nil_right] at h ⊢; exact h
    | cons h0 hs =>
      rw [evalElems_cons] at h ⊢
      cases h1 : evalElem1 ra t w x h0 with
      | ok h' =>
        rw [h1] at h; dsimp only at h
        have h1' : evalElem1 (ra ++ rb) t' w x h0 = .ok h' := by
          unfold evalElem1 at h1 ⊢
          split
          · rename_i hp; rw [if_pos hp] at h1; exact evalElem_mono hle h1
          · rename_i hp; rw [if_neg hp] at h1; exact h1
        rw [h1']; dsimp only
        cases h2 : evalElems ra t w xs hs with
        | ok r' => rw [ih h2]; rw [h2] at h; exact h
        | _ => rw [h2] at h; cases h
      | _ => rw [h1] at h; cases h

theorem evalList1_mono {ra rb : List Stmt} {t t' : SymTab} (hle : SymTab.Le t t') {s s' : Stmt}
    (h : evalList1 t ra s = .ok s') : evalList1 t' (ra ++ rb) s = .ok s' := by
  rcases evalList1_additional h with ⟨hs, hs', h1, _, h3⟩ | ⟨hs, hs', h1, _, h3⟩ | ⟨h1, h2, rfl⟩
  · obtain ⟨hs'', h4, rfl⟩ := evalList1_multiByte h1 h
    unfold evalList1; rw [h1]; dsimp only; rw [evalElems_mono hle h4]
  · obtain ⟨hs'', h4, rfl⟩ := evalList1_multiWord h1 h
    unfold evalList1; rw [h1]; dsimp only; rw [evalElems_mono hle h4]
  · exact evalList1_keep _ _ h1 h2

theorem evalLists_mono {ra rb : List Stmt} {t t' : SymTab} (hle : SymTab.Le t t') :
    ∀ {l r : List Stmt}, evalLists t ra l = .ok r → evalLists t' (ra ++ rb) l = .ok r := by
  intro l
  induction l with
  | nil => intro r h; rw [evalLists_nil] at h ⊢; exact h
  | cons s rest ih =>
    intro r h
    rw [evalLists_cons] at h
    cases h1 : evalList1 t ra s with
    | ok s' =>
      rw [h1] at h; dsimp only at h
      cases h2 : evalLists t ra rest with
      | ok r' =>
        rw [h2] at h; cases h
        exact evalLists_cons_ok (evalList1_mono hle h1) (ih h2)
      | _ => rw [h2] at h; cases h
    | _ => rw [h1] at h; cases h

theorem evalLists_append_ok (t : SymTab) (ss : List Stmt) : ∀ (x y r : List Stmt),
    evalLists t ss (x ++ y) = .ok r → ∃ rx ry, evalLists t ss x = .ok rx ∧ evalLists t ss y = .ok ry ∧ r = rx ++ ry := by
  intro x
  induction x with
  | nil => intro y r h; exact ⟨[], r, evalLists_nil _ _, by simpa using h, rfl⟩
  | cons s rest ih =>
    intro y r h
    rw [List.cons_append, evalLists_cons] at h
    cases h1 : evalList1 t ss s with
    | ok s' =>
      rw [h1] at h; dsimp only at h
      cases h2 : evalLists t ss (rest ++ y) with
      | ok r2 =>
        rw [h2] at h; cases h
        obtain ⟨rx, ry, e1, e2, e3⟩ := ih _ _ h2
        exact ⟨s' :: rx, ry, evalLists_cons_ok h1 e1, e2, by rw [e3]; rfl⟩
      | _ => rw [h2] at h; cases h
    | _ => rw [h1] at h; cases h

/-! ### `finish` -/

/-- STATEMENT CHANGED in batch 4: the final symbol table is made from the table with the EQU expressions evaluated;
STATEMENT CHANGED in batch 8: `fixAllL t ss4` (was `fixAll ss4 0 ss4`) -/
theorem finish_ok {t : SymTab} {ss4 : List Stmt} {A : Assembly} (h : finish t ss4 = .ok A) :
    fixAllL t ss4 = .ok A.stmts ∧
      ∃ t1, evalSyms A.stmts t t = .ok t1 ∧ finalSymTab A.stmts t1 = .ok A.symtab := by
  unfold finish at h
  cases h1 : fixAllL t ss4 with
  | ok ss5 =>
    rw [h1] at h
    dsimp only at h
    cases h3 : evalSyms ss5 t t with
    | ok t1 =>
      rw [h3] at h
      dsimp only at h
      cases h2 : finalSymTab ss5 t1 with
      | ok t' =>
        rw [h2] at h
        simp only [Outcome.ok.injEq] at h
        subst h
        exact ⟨rfl, t1, h3, h2⟩
      | _ => rw [h2] at h; cases h
    | _ => rw [h3] at h; cases h
  | _ => rw [h1] at h; cases h

/-- prefix stability of `finish` -/
theorem finish_prefix {t1 d : SymTab} {la lb : List Stmt} {A B : Assembly}
    (hA : finish t1 la = .ok A) (hB : finish (t1 ++ d) (la ++ lb) = .ok B)
    (hbr : BranchInside la.length la) :
    (∃ r, B.stmts = A.stmts ++ r) ∧ (∃ d', B.symtab = A.symtab ++ d') := by
  obtain ⟨a0, ta, a3, a2⟩ := finish_ok hA
  obtain ⟨b0, tb, b3, b2⟩ := finish_ok hB
  obtain ⟨xa, a1, a1'⟩ := fixAllL_ok.1 a0
  obtain ⟨xb, b1, b1'⟩ := fixAllL_ok.1 b0
  obtain ⟨rx, ry0, e1, _, e3'⟩ := fixAll_append_ok _ _ _ _ _ b1
  have := fixAll_mono (rb := lb) la 0 xa (by simp) hbr a1
  rw [this] at e1
  cases e1
  subst e3'
  obtain ⟨qx, ry, q1, _, e3⟩ := evalLists_append_ok _ _ _ _ _ b1'
  rw [evalLists_mono (SymTab.le_append t1 d) a1'] at q1
  cases q1
  rw [e3] at b2 b3
  obtain ⟨tx, ty, g1, _, g3⟩ := evalSyms_append_ok b3
  rw [evalSyms_mono (SymTab.le_append t1 d) a3] at g1
  cases g1
  rw [g3] at b2
  obtain ⟨r1, rd, f1, f2⟩ := finalSymTab_append_ok _ _ _ _ b2
  rw [finalSymTab_mono _ _ a2] at f1
  cases f1
  exact ⟨⟨ry, e3⟩, ⟨rd, f2⟩⟩

/-! ### image -/

theorem mapM_append_some {α β} (f : α → Option β) : ∀ (x y : List α) (r : List β),
    (x ++ y).mapM f = some r → ∃ rx ry, x.mapM f = some rx ∧ y.mapM f = some ry ∧ r = rx ++ ry := by
  intro x y r h
  rw [List.mapM_append] at h
  cases hx : x.mapM f with
  | none => rw [hx] at h; simp at h
  | some rx =>
    cases hy : y.mapM f with
    | none => rw [hx, hy] at h; simp at h
    | some ry =>
      rw [hx, hy] at h
      simp at h
      exact ⟨rx, ry, rfl, rfl, h.symm⟩

theorem image_prefix {A B : Assembly} {r : List Stmt} (h : B.stmts = A.stmts ++ r) {ib : Bytes}
    (hb : B.image = some ib) : ∃ ia rest, A.image = some ia ∧ ib = ia ++ rest := by
  unfold Assembly.image at hb ⊢
  rw [h] at hb
  cases hm : (A.stmts ++ r).mapM stmtBytes with
  | none => rw [hm] at hb; cases hb
  | some l =>
    rw [hm] at hb
    obtain ⟨rx, ry, e1, _, e3⟩ := mapM_append_some _ _ _ _ hm
    rw [e1]
    simp only [Option.map, Option.some.injEq] at hb ⊢
    exact ⟨_, ry.flatten, rfl, by rw [← hb, e3, List.flatten_append]⟩

end CoCo.Asm
