/-
Lemmas/EncodeDecode.lean — the opcode part of every instruction: what `opVal` emits for a cell of
the table and how the datasheet decoder reads it back; the `Encodes` predicate shared by the
C01 / C12 theorems; the table checker (`cellOk`, `rowOk`) and what it says about one cell.
-/
import CoCoVerif.Lemmas.EncodeFit
import CoCoVerif.Spec.MC6809

namespace CoCo.Asm
open CoCo CoCo.Spec.MC6809
open CoCo.Gen (InstrRow)

/-! ### the decoder after the opcode -/

/-- what `decode` does once the opcode (of `n` bytes) has been looked up -/
def decodeTail (op : String) (mode : AM) (n : Nat) (rest : Bytes) : Option (Instr × Nat) :=
  match mode with
  | .inh => some (⟨op, .none⟩, n)
  | .imm8 => (match rest with | v :: _ => some (⟨op, .imm 8 v⟩, n + 1) | _ => none)
  | .imm16 => (match rest with | h :: l :: _ => some (⟨op, .imm 16 (h * 256 + l)⟩, n + 2) | _ => none)
  | .dir => (match rest with | a :: _ => some (⟨op, .dir a⟩, n + 1) | _ => none)
  | .ext => (match rest with | h :: l :: _ => some (⟨op, .ext (h * 256 + l)⟩, n + 2) | _ => none)
  | .rel8 => (match rest with | d :: _ => some (⟨op, .rel 8 (sext d 8)⟩, n + 1) | _ => none)
  | .rel16 => (match rest with | h :: l :: _ => some (⟨op, .rel 16 (sext (h * 256 + l) 16)⟩, n + 2) | _ => none)
  | .idx => (match decodePostByte rest with | some (i, k) => some (⟨op, .idx i⟩, n + k) | none => none)
  | .pair =>
    (match rest with
     | p :: _ =>
       let s := p / 16
       let t := p % 16
       if pairCodeOk s && pairCodeOk t && (decide (s ≥ 8) == decide (t ≥ 8)) then some (⟨op, .pair s t⟩, n + 1) else none
     | _ => none)
  | .list => (match rest with | m :: _ => some (⟨op, .list m⟩, n + 1) | _ => none)

/-- every opcode of the datasheet map is one byte other than the page prefixes, or a page prefix and a byte -/
theorem map_shape : ∀ e ∈ opcodeMap,
    (e.1 < 256 ∧ e.1 ≠ 0x10 ∧ e.1 ≠ 0x11) ∨ (256 ≤ e.1 ∧ e.1 < 65536 ∧ (e.1 / 256 = 0x10 ∨ e.1 / 256 = 0x11)) := by
  decide +kernel

theorem lookup_mem {c : Nat} {x : String × AM} (h : lookup c = some x) : (c, x) ∈ opcodeMap := by
  simp only [lookup, Option.map_eq_some_iff] at h
  obtain ⟨e, he, rfl⟩ := h
  have h1 := List.find?_some he
  have h2 := List.mem_of_find?_eq_some he
  have : e.1 = c := by simpa using h1
  subst this
  exact h2

theorem lookup_shape {c : Nat} {x : String × AM} (h : lookup c = some x) :
    (c < 256 ∧ c ≠ 0x10 ∧ c ≠ 0x11) ∨ (256 ≤ c ∧ c < 65536 ∧ (c / 256 = 0x10 ∨ c / 256 = 0x11)) :=
  map_shape _ (lookup_mem h)

/-- the bytes of an opcode cell -/
def opcodeBytes (c : Nat) : Bytes := if c < 256 then [c] else [c / 256, c % 256]

theorem opcodeBytes_length (c : Nat) : (opcodeBytes c).length = opcodeLen c := by
  unfold opcodeBytes opcodeLen
  by_cases h : c < 256
  · have : ¬ c > 255 := by omega
    simp [h, this]
  · have : c > 255 := by omega
    simp [h, this]

/-- the NumericValue built for an opcode cell -/
def opv (c : Nat) : Value := if c < 256 then .numeric c (some 2) .direct false else .numeric c none .extended false

theorem opVal_ok {c : Nat} (h : c < 65536) : opVal (some c) = .ok (opv c) := by
  unfold opv
  by_cases h1 : c < 256
  · simpa [opVal, h1, numV] using numV_byte h1
  · simpa [opVal, h1, numV] using numV_word (by omega) h

theorem emit_opv {c : Nat} (h : c < 65536) : emitValue (opv c) = some (opcodeBytes c) := by
  unfold opv opcodeBytes
  by_cases h1 : c < 256
  · simp [h1, emit_hint2 _ h1]
  · simp [h1, emit_hintNone_word _ (show 256 ≤ c by omega) h]

theorem decode_opcode {c : Nat} {op : String} {am : AM} (h : lookup c = some (op, am)) (rest : Bytes) :
    decode (opcodeBytes c ++ rest) = decodeTail op am (opcodeLen c) rest := by
  rcases lookup_shape h with ⟨h1, h2, h3⟩ | ⟨h1, h2, h3⟩
  · have hl : opcodeLen c = 1 := by simp [opcodeLen]; omega
    have hp : ¬ (c = 0x10 ∨ c = 0x11) := by omega
    simp only [opcodeBytes, h1, if_true, List.cons_append, List.nil_append, decode, hp, if_false, h, hl]
    cases am <;> rfl
  · have hl : opcodeLen c = 2 := by simp [opcodeLen]; omega
    have hn : ¬ c < 256 := by omega
    have hp : (c / 256 = 0x10 ∨ c / 256 = 0x11) := h3
    have hc : c / 256 * 256 + c % 256 = c := by omega
    simp only [opcodeBytes, hn, if_false, List.cons_append, List.nil_append, decode, hp, if_true, hc, h, hl]
    cases am <;> rfl

/-- `decodePostByte` unfolded (stated once; `simp [decodePostByte]` itself is too slow) -/
theorem decodePostByte_cons (p : Nat) (rest : Bytes) : decodePostByte (p :: rest) =
    (if p < 128 then some (.off ((p / 32) % 4) (sext (p % 32) 5) false 5, 1)
    else
      if p % 16 = 0 then (if (p / 16) % 2 = 1 then none else some (.inc1 ((p / 32) % 4), 1))
      else if p % 16 = 1 then some (.inc2 ((p / 32) % 4) ((p / 16) % 2 = 1), 1)
      else if p % 16 = 2 then (if (p / 16) % 2 = 1 then none else some (.dec1 ((p / 32) % 4), 1))
      else if p % 16 = 3 then some (.dec2 ((p / 32) % 4) ((p / 16) % 2 = 1), 1)
      else if p % 16 = 4 then some (.off ((p / 32) % 4) 0 ((p / 16) % 2 = 1) 0, 1)
      else if p % 16 = 5 ∨ p % 16 = 6 ∨ p % 16 = 11 then some (.acc (p % 16) ((p / 32) % 4) ((p / 16) % 2 = 1), 1)
      else if p % 16 = 8 then (match rest with | o :: _ => some (.off ((p / 32) % 4) (sext o 8) ((p / 16) % 2 = 1) 8, 2) | _ => none)
      else if p % 16 = 9 then (match rest with | h :: l :: _ => some (.off ((p / 32) % 4) (sext (h * 256 + l) 16) ((p / 16) % 2 = 1) 16, 3) | _ => none)
      else if p % 16 = 12 then (match rest with | o :: _ => some (.pcr (sext o 8) ((p / 16) % 2 = 1) 8, 2) | _ => none)
      else if p % 16 = 13 then (match rest with | h :: l :: _ => some (.pcr (sext (h * 256 + l) 16) ((p / 16) % 2 = 1) 16, 3) | _ => none)
      else if p % 16 = 15 then (if p = 0x9F then (match rest with | h :: l :: _ => some (.extInd (h * 256 + l), 3) | _ => none) else none)
      else none) := rfl

/-! ### the statement shape of C01 (ii) -/

/-- `o` translates for row `r`; every statement that carries row, operand and package (the statement
`translateAll` builds) passes `fitWidth` and then emits `bytes`, as many as the package announces; and the
datasheet decoder reads `bytes` back as the operation of `r` with operand `operand`, consuming all of them.
The package does not wait for an address (`needsRes = false`), so for a label-free operand `fixOne`, which runs
between `translate` and `fitWidth`, is the identity: `Encodes.through_fix` below. -/
def Encodes (o : Operand) (r : InstrRow) (operand : Spec.MC6809.Operand) : Prop :=
  ∃ pkg bytes, translateOperand o r = .ok pkg ∧ pkg.needsRes = false ∧
    (∀ s : Stmt, s.row = r → s.operand = o → s.pkg = pkg → ∃ s', fitWidth s = .ok s' ∧ stmtBytes s' = some bytes) ∧
    bytes.length = pkg.size ∧ decode bytes = some (⟨opOf r.mnemonic, operand⟩, bytes.length)

/-- the statement with nothing but row, operand and package -/
def mkStmt (r : InstrRow) (o : Operand) (p : Pkg) : Stmt := { (default : Stmt) with row := r, operand := o, pkg := p }

/-- from the package level to every statement that carries the package -/
theorem emitted_of_fitPkg {r : InstrRow} {o : Operand} {pkg p' : Pkg} {bytes : Bytes}
    (hf : fitPkg r pkg = .ok p') (hb : pkgBytes p' = some bytes) :
    ∀ s : Stmt, s.row = r → s.operand = o → s.pkg = pkg → ∃ s', fitWidth s = .ok s' ∧ stmtBytes s' = some bytes := by
  intro s hr _ hp
  subst hr hp
  exact ⟨_, fitWidth_ok hf, by rw [stmtBytes_eq_pkgBytes]; exact hb⟩

/-- and back -/
theorem fitPkg_of_emitted {r : InstrRow} {o : Operand} {pkg : Pkg} {bytes : Bytes}
    (h : ∀ s : Stmt, s.row = r → s.operand = o → s.pkg = pkg → ∃ s', fitWidth s = .ok s' ∧ stmtBytes s' = some bytes) :
    ∃ p', fitPkg r pkg = .ok p' ∧ pkgBytes p' = some bytes := by
  obtain ⟨s', hs', hb⟩ := h (mkStmt r o pkg) rfl rfl rfl
  obtain ⟨p', hp', rfl⟩ := fitWidth_ok_iff.mp hs'
  exact ⟨p', hp', by rw [stmtBytes_eq_pkgBytes] at hb; exact hb⟩

theorem stmtBytes_of (s : Stmt) {a b c : Bytes} (h1 : emitValue s.pkg.opCode = some a)
    (h2 : emitValue s.pkg.postByte = some b) (h3 : emitValue s.pkg.additional = some c) :
    stmtBytes s = some (a ++ b ++ c) := by
  simp [stmtBytes, h1, h2, h3]

/-- the post byte as the translators build it: absent, or one byte -/
inductive PostOk : Value → Bytes → Prop
  | none : PostOk .none []
  | byte {p : Nat} : p < 256 → PostOk (.numeric p (some 2) .direct false) [p]

theorem PostOk.emit {v : Value} {pb : Bytes} (h : PostOk v pb) : emitValue v = some pb := by
  cases h with
  | none => exact emitValue_none
  | byte hp => exact emit_hint2 _ hp

theorem PostOk.hexLen {v : Value} {pb : Bytes} (h : PostOk v pb) : v.hexLen? = some (2 * pb.length) := by
  cases h <;> rfl

theorem opv_hexLen {c : Nat} (h : c < 65536) : (opv c).hexLen? = some (2 * opcodeLen c) := by
  unfold opv opcodeLen
  by_cases h1 : c < 256
  · have : ¬ c > 255 := by omega
    simp [h1, this, Value.hexLen?, numHexLen]
  · have : c > 255 := by omega
    simp [h1, this, Value.hexLen?, numHexLen_none_word (show 256 ≤ c by omega) h]

/-- assembling the pieces when nothing follows the post byte: opcode cell `c`, post-byte bytes `pb` -/
theorem encodes_of {o : Operand} {r : InstrRow} {operand : Spec.MC6809.Operand} {c : Nat} {am : AM}
    {pkg : Pkg} {pb : Bytes}
    (hl : lookup c = some (opOf r.mnemonic, am))
    (ht : translateOperand o r = .ok pkg)
    (hnr : pkg.needsRes = false)
    (hop : pkg.opCode = opv c)
    (hpb : emitValue pkg.postByte = some pb)
    (had : pkg.additional = .none)
    (hsz : pkg.size = opcodeLen c + pb.length)
    (hdec : decodeTail (opOf r.mnemonic) am (opcodeLen c) pb =
      some (⟨opOf r.mnemonic, operand⟩, opcodeLen c + pb.length)) :
    Encodes o r operand := by
  have hc : c < 65536 := by rcases lookup_shape hl with h | h <;> omega
  refine ⟨pkg, opcodeBytes c ++ pb, ht, hnr, ?_, ?_, ?_⟩
  · refine emitted_of_fitPkg (fitPkg_nonNumeric r (by rw [had]; rfl)) ?_
    have := pkgBytes_of (p := pkg) (by rw [hop]; exact emit_opv hc) hpb (by rw [had]; exact emitValue_none)
    simpa using this
  · simp [opcodeBytes_length, hsz]
  · rw [decode_opcode hl, hdec]
    simp [opcodeBytes_length]

/-- assembling the pieces when a numeric field follows: the field is fitted to the width the size announces -/
theorem encodes_of_fit {o : Operand} {r : InstrRow} {operand : Spec.MC6809.Operand} {c : Nat} {am : AM}
    {pkg : Pkg} {pb ad : Bytes} {n : Nat} {h : Option Nat} {m : Mode} {neg : Bool}
    (hp : r.isPseudo = false) (hsp : r.isSpecial = false)
    (hl : lookup c = some (opOf r.mnemonic, am))
    (ht : translateOperand o r = .ok pkg)
    (hnr : pkg.needsRes = false)
    (hop : pkg.opCode = opv c)
    (hpb : PostOk pkg.postByte pb)
    (had : pkg.additional = .numeric n h m neg)
    (hfit : FieldFit n neg ad)
    (hsz : pkg.size = opcodeLen c + pb.length + ad.length)
    (hdec : decodeTail (opOf r.mnemonic) am (opcodeLen c) (pb ++ ad) =
      some (⟨opOf r.mnemonic, operand⟩, opcodeLen c + pb.length + ad.length)) :
    Encodes o r operand := by
  have hc : c < 65536 := by rcases lookup_shape hl with h | h <;> omega
  obtain ⟨v, hv, hev⟩ := hfit.fit
  have hrow : ((r.isPseudo && !(r.isMultiByte || r.isMultiWord)) || r.isSpecial) = false := by simp [hp, hsp]
  have hf := fitPkg_numeric (d := 2 * ad.length) hrow had (by rw [hop]; exact opv_hexLen hc) hpb.hexLen
    (by rw [hsz]; omega) hfit.digits
  rw [hv] at hf
  refine ⟨pkg, opcodeBytes c ++ pb ++ ad, ht, hnr, ?_, ?_, ?_⟩
  · exact emitted_of_fitPkg hf (pkgBytes_of (by simp only [hop]; exact emit_opv hc) hpb.emit hev)
  · simp [opcodeBytes_length, hsz, Nat.add_assoc]
  · rw [List.append_assoc, decode_opcode hl, hdec]
    simp [opcodeBytes_length, Nat.add_assoc]

/-- a field that does not fit: the statement is rejected by `fitWidth` (a diagnostic) -/
theorem rejected_of_misfit {o : Operand} {r : InstrRow} {c : Nat} {x : String × AM}
    {pkg : Pkg} {pb : Bytes} {n : Nat} {h : Option Nat} {m : Mode} {neg : Bool} {d : Nat}
    (hp : r.isPseudo = false) (hsp : r.isSpecial = false)
    (hl : lookup c = some x)
    (hop : pkg.opCode = opv c)
    (hpb : PostOk pkg.postByte pb)
    (had : pkg.additional = .numeric n h m neg)
    (hsz : 2 * pkg.size = 2 * opcodeLen c + 2 * pb.length + d) (hd : d = 2 ∨ d = 4)
    (hmis : fitNum n neg d = .error .valueType) :
    ∀ s : Stmt, s.row = r → s.operand = o → s.pkg = pkg → fitWidth s = .diag := by
  have hc : c < 65536 := by rcases lookup_shape hl with h | h <;> omega
  have hrow : ((r.isPseudo && !(r.isMultiByte || r.isMultiWord)) || r.isSpecial) = false := by simp [hp, hsp]
  have hf := fitPkg_numeric (d := d) hrow had (by rw [hop]; exact opv_hexLen hc) hpb.hexLen hsz hd
  rw [hmis] at hf
  intro s hr _ hpk
  subst hr hpk
  exact fitWidth_diag hf

/-! ### `fix_addresses` on a label-free statement -/

/-- an operand that mentions no label: not a branch, and its value is neither a label, nor a label expression,
nor Python `None` -/
structure LabelFree (o : Operand) : Prop where
  notRel : o.kind ≠ .relative
  notNone : o.value ≠ .pyNone
  notAddrExpr : o.value.isAddrExpr = false
  notAddr : o.value.isAddress = false

/-- `fix_addresses` (which runs between `translate` and `fit_operand_width`) leaves such a statement alone -/
theorem fixOne_labelFree {s : Stmt} (hlf : LabelFree s.operand) (h3 : s.pkg.needsRes = false) (ss : List Stmt) (i : Nat) :
    fixOne ss i s = .ok s := by
  have hk : (s.operand.kind == .relative) = false := by simpa using hlf.notRel
  unfold fixOne
  rw [if_neg (by simp [hk])]
  have hv := hlf.notNone
  cases hval : s.operand.value with
  | pyNone => exact absurd hval hv
  | _ =>
    have h1 := hlf.notAddrExpr; have h2 := hlf.notAddr
    rw [hval] at h1 h2
    simp_all [Value.isAddrExpr, Value.isAddress]

/-- hence the step of `fixAll` on such a statement is `fitWidth` alone -/
theorem fixStep_labelFree {s : Stmt} (hlf : LabelFree s.operand) (h3 : s.pkg.needsRes = false) (ss : List Stmt) (i : Nat) :
    (match fixOne ss i s with | .ok s1 => fitWidth s1 | o => o) = fitWidth s := by
  rw [fixOne_labelFree hlf h3]

/-- **what is really emitted**: for a label-free operand the step of `fixAll` (`fix_addresses`, then
`fit_operand_width`) on every statement carrying row, operand and package yields the bytes `Encodes` speaks about,
whatever the other statements `ss` and the position `i` are -/
theorem Encodes.through_fix {o : Operand} {r : InstrRow} {x : Spec.MC6809.Operand} (he : Encodes o r x)
    (hlf : LabelFree o) :
    ∃ pkg bytes, translateOperand o r = .ok pkg ∧
      (∀ (ss : List Stmt) (i : Nat) (s : Stmt), s.row = r → s.operand = o → s.pkg = pkg →
        ∃ s', (match fixOne ss i s with | .ok s1 => fitWidth s1 | o => o) = .ok s' ∧ stmtBytes s' = some bytes) ∧
      bytes.length = pkg.size ∧ decode bytes = some (⟨opOf r.mnemonic, x⟩, bytes.length) := by
  obtain ⟨pkg, bytes, ht, hnr, hb, hl, hd⟩ := he
  refine ⟨pkg, bytes, ht, ?_, hl, hd⟩
  intro ss i s hr ho hp
  rw [fixStep_labelFree (by rw [ho]; exact hlf) (by rw [hp]; exact hnr)]
  exact hb s hr ho hp

/-! ### the table checker -/

/-- one cell of the instruction table against the datasheet map -/
def cellOk (mn : String) (cell : Option Nat) (sz : Nat) (allowed : List AM) : Bool :=
  match cell with
  | none => sz == 0
  | some c =>
    match lookup c with
    | none => false
    | some (op, am) => op == opOf mn && allowed.contains am && sz == opcodeLen c + operandLen am

def rowOk (r : InstrRow) : Bool :=
  r.isPseudo ||
  (cellOk r.mnemonic r.inh r.inhSz [.inh] && cellOk r.mnemonic r.imm r.immSz [.imm8, .imm16, .pair, .list] &&
   cellOk r.mnemonic r.dir r.dirSz [.dir] && cellOk r.mnemonic r.ind r.indSz [.idx] &&
   cellOk r.mnemonic r.ext r.extSz [.ext] && cellOk r.mnemonic r.rel r.relSz [.rel8, .rel16])

/-- all opcode cells of the table -/
def allCells : List Nat :=
  Gen.instructions.flatMap (fun r => [r.inh, r.imm, r.dir, r.ind, r.ext, r.rel].filterMap id)

/-- the opcode occurs in some cell of the table -/
def reachable (c : Nat) : Bool := allCells.contains c

theorem cellOk_some {mn : String} {c sz : Nat} {allowed : List AM} (h : cellOk mn (some c) sz allowed = true) :
    ∃ am, lookup c = some (opOf mn, am) ∧ am ∈ allowed ∧ sz = opcodeLen c + operandLen am := by
  unfold cellOk at h
  simp only at h
  split at h
  · exact absurd h (by simp)
  · rename_i op am hl
    simp only [Bool.and_eq_true, beq_iff_eq, List.contains_iff_mem] at h
    obtain ⟨⟨h1, h2⟩, h3⟩ := h
    exact ⟨am, by rw [hl, h1], h2, h3⟩

end CoCo.Asm
