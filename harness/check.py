#!/venv/bin/python
"""
check.py — `./check Cxx --tier quick|thorough [--replay file]`
exit 0: property held on everything explored (KNOWN-FINDING lines for listed findings)
exit 1: `VIOLATION property=Cxx replay=<path>[ no-failing-input-found]`
exit 2: infrastructure failure (never a VIOLATION line)
"""
import argparse
import json
import os
import sys
import traceback

sys.path.insert(0, os.path.dirname(os.path.abspath(__file__)))

from common import InfraError, Stopwatch, VERIF     # noqa: E402
from registry import REGISTRY                         # noqa: E402


def main():
    ap = argparse.ArgumentParser()
    ap.add_argument("prop")
    ap.add_argument("--tier", default=os.environ.get("VERIF_TIER", "quick"), choices=["quick", "thorough"])
    ap.add_argument("--replay")
    ap.add_argument("--no-build", action="store_true", help="skip lake build / audit (development only; evidence marks it)")
    args = ap.parse_args()
    seed = int(os.environ.get("VERIF_SEED", "0") or 0)
    prop = args.prop
    if prop not in REGISTRY:
        print("unknown or unclaimed property", prop)
        return 2
    spec = REGISTRY[prop]
    sw = Stopwatch()
    run = None
    proof = None
    try:
        import framework
        import families
        tier = args.tier
        if args.replay:
            # every random choice derives from the seed, so a replay file is replayed by re-running the check with the
            # seed and tier recorded in it (the failing case then comes up again at the same place)
            with open(args.replay) as fh:
                replay = json.load(fh)
            seed = int(replay.get("seed", seed))
            tier = replay.get("tier", tier)
            print("replaying {} with seed={} tier={}".format(args.replay, seed, tier))
        import gen_tables
        if gen_tables.main() != 0:
            print("gen_tables could not import the tables of /repo; the committed snapshot of Gen/ is used and the tie is reported broken")
        proof = framework.prove(prop, spec, tier)
        run = framework.Run(prop, tier, seed)
        families.run(prop, spec, run)
        # static tie: modelled functions whose text differs from the snapshot the model was validated against
        import fingerprint
        changed = fingerprint.changed(prop)
        if changed:
            run.notes.append("source differs from the snapshot the model was validated against (harness/fingerprints.json): " + "; ".join(changed[:12]) +
                             (" ... {} more".format(len(changed) - 12) if len(changed) > 12 else ""))
            run.dist["source_functions_changed"] = len(changed)
            if not args.replay and not run.violations:
                # spend more search effort where the correspondence is in question: further seeds of the same streams
                for r in range(int(os.environ.get("VERIF_CHANGED_REPEATS", "3") or 0)):
                    if run.violations:
                        break
                    run.seed = seed + 7919 * (r + 1)
                    families.run(prop, spec, run)
                run.seed = seed
        return framework.finish(run, spec, proof, sw)
    except InfraError as e:
        print("INFRA-ERROR", prop, e)
        return 2
    except Exception:
        traceback.print_exc()
        if run is not None and proof is not None and run.violations:
            # the harness stumbled over behaviour it did not expect AFTER the oracle had already found failing inputs:
            # those are real and are reported (the crash itself is noted in the evidence)
            run.notes.append("the harness crashed after recording these violations: " + traceback.format_exc()[-400:])
            import framework as _fw
            return _fw.finish(run, spec, proof, sw)
        print("INFRA-ERROR", prop, "harness crashed")
        return 2


if __name__ == "__main__":
    sys.exit(main())
