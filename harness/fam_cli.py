"""
harness/fam_cli.py — virtual-file and command-line streams (properties C09, C10, C11, C16; exit-status part of C13).

  vf.sniff   VirtualFile.get_coco_files(bytes)  vs model VF.sniff   (kind + files)            C09
  vf.hist    add / save / re-open histories through VirtualFile on real temp files vs model     C09 C15
  cli.asm    assembler.main (in-process, and as a subprocess for a sample) over the C10 matrix   C10 C11 C13
  cli.util   file_util.main conversions, --files selections, chains                             C16 C10
Oracles use the Lean specs through the driver (spec.tape, spec.fsck, spec.dskread), never the model.
"""
import contextlib
import io
import os
import random
import shutil
import subprocess
import sys
import tempfile
import argparse

from common import PYTHON, REPO, drive, hexs, repo_import_path
from framework import guarded
import fam_cas
import fam_dsk
import gen_asm

repo_import_path()
from cocoasm.virtualfiles.virtual_file import VirtualFile, VirtualFileType            # noqa: E402
from cocoasm.virtualfiles.source_file import SourceFile, SourceFileType               # noqa: E402
from cocoasm.virtualfiles.virtual_file_exceptions import VirtualFileValidationError   # noqa: E402
import assembler as asm_cli                                                            # noqa: E402
import file_util as util_cli                                                           # noqa: E402

SIZE = 161280
KIND_OF = {VirtualFileType.CASSETTE: "cassette", VirtualFileType.BINARY: "binary", VirtualFileType.DISK: "disk"}
VFT = {"cassette": VirtualFileType.CASSETTE, "binary": VirtualFileType.BINARY, "disk": VirtualFileType.DISK}


def content_enc(b):
    """how a host file is sent to the driver"""
    if len(b) >= 100000:
        if len(b) == SIZE:
            return {"img": fam_dsk.patches(b)}
        bb = bytes(b)
        import re
        return {"img": {"size": len(bb), "fill": 255, "patches": [[m.start(), bb[m.start():m.end()].hex()] for m in re.finditer(rb"[^\xff]+", bb)]}}
    return {"buf": hexs(b)}


def content_dec(b):
    """canonical description of a host file, comparable with the driver's contentJson"""
    b = list(b)
    if len(b) >= 100000:
        return {"len": len(b), "hash": fam_dsk.hash64(b), "fat": hexs(b[78592:78592 + 256]), "dir": hexs(b[78848:78848 + 2304])}
    return {"len": len(b), "hex": hexs(b)}


def make_cassette(rnd, nfiles=None, big=False, dirbyte=None):
    fs = [fam_cas.gen_file(rnd, fam_cas.LENS_QUICK, allow_empty=False) for _ in range(nfiles if nfiles is not None else rnd.choice([1, 2]))]
    if big:
        # one long file so that the image reaches the size of a disk image; data chosen so that the bytes at the
        # disk directory offsets are `dirbyte` (00 / FF: looks like an empty directory) or text
        n = 65535
        d = [dirbyte if dirbyte is not None else rnd.randrange(0x41, 0x5B)] * n
        fs = [dict(fam_cas.gen_file(rnd, [10], allow_empty=False), data=hexs(d)) for _ in range(3)]
        if dirbyte is not None:
            # shorten the first file until the byte at the first directory offset of a disk image (78848) is `dirbyte`
            for cut in range(0, 12):
                fs[0]["data"] = hexs(d[:n - cut])
                k, buf = fam_cas.impl_write(fs)
                if buf[78848] == dirbyte:
                    break
    k, buf = fam_cas.impl_write(fs)
    return fs, buf


def make_disk(rnd):
    fs = [fam_dsk.gen_file(rnd, fam_dsk.boundary_lens(), 9000) for _ in range(rnd.choice([1, 2, 3]))]
    k, buf = fam_dsk.impl_write(None, fs)
    return fs, buf


def raw_binary(rnd):
    n = rnd.choice([1, 10, 300, 5000])
    return [rnd.randrange(256) for _ in range(n)]


def arbitrary(rnd):
    k = rnd.random()
    if k < 0.4:
        return list(("hello world, this is a text file\n" * rnd.randrange(1, 50)).encode())
    if k < 0.7:
        return [rnd.choice([0x55, 0x3C, 0x00, 0xFF, 0x41]) for _ in range(rnd.choice([5, 100, 2000]))]
    return [0x55] * 10 + [0x55, 0x3C, 0x00, 0x0F] + [rnd.randrange(256) for _ in range(rnd.choice([3, 20, 200]))]


TARGET_KINDS = ["absent", "empty", "cassette", "disk", "rawbin", "arbitrary", "bigcas00", "bigcasFF", "bigcastext", "bigcasgap"]


def gap_cassette(rnd):
    """a well-formed tape stream of disk-image size with a long zero gap (filler) lying over the offsets of a disk
    directory: the remaining corner of known finding G1"""
    def one(n):
        f = fam_cas.gen_file(rnd, [n], allow_empty=False)
        f["data"] = hexs([rnd.randrange(0x41, 0x5B) for _ in range(n)])
        return f
    def tape_of(f):
        nm = fam_cas.pad8(f["name"])
        t = [0] * 128 + [0x55] * 128 + fam_cas.frame(0, nm + [f["ftype"], f["dtype"], 0, f["load"] >> 8, f["load"] & 255, f["exec"] >> 8, f["exec"] & 255])
        t += [0x55] * 16
        d = list(bytes.fromhex(f["data"]))
        while d:
            t += fam_cas.frame(1, d[:255])
            d = d[255:]
        return t + fam_cas.frame(0xFF, [])
    tape = tape_of(one(60000))
    tape += [0] * (83200 - len(tape))          # the gap covers track 17 of a disk image (78336 .. 82944)
    tape += tape_of(one(60000)) + tape_of(one(30000))
    return tape


def make_target(rnd, kind):
    if kind == "absent":
        return None
    if kind == "empty":
        return []
    if kind == "cassette":
        return make_cassette(rnd)[1]
    if kind == "disk":
        return make_disk(rnd)[1]
    if kind == "rawbin":
        return raw_binary(rnd)
    if kind == "arbitrary":
        return arbitrary(rnd)
    if kind == "bigcas00":
        return make_cassette(rnd, big=True, dirbyte=0x00)[1]
    if kind == "bigcasFF":
        return make_cassette(rnd, big=True, dirbyte=0xFF)[1]
    if kind == "bigcastext":
        return make_cassette(rnd, big=True)[1]
    if kind == "bigcasgap":
        return gap_cassette(rnd)
    raise KeyError(kind)


# ---------------------------------------------------------------- vf.sniff

def impl_sniff(buf):
    def go():
        sf = SourceFile("unused", file_type=SourceFileType.BINARY)
        sf.set_buffer(list(buf))
        v = VirtualFile(sf)
        files, kind = v.get_coco_files()
        return KIND_OF[kind], [fam_cas.of_coco(c) for c in files]
    return guarded(go, 30, diag=(VirtualFileValidationError,))


def run_sniff(run, n):
    rnd = random.Random(run.seed * 31 + 3)
    reqs, ctx = [], []
    for i in range(n):
        kind = rnd.choice(TARGET_KINDS[1:])
        buf = make_target(rnd, kind)
        if rnd.random() < 0.15 and buf:
            buf = fam_cas.corrupt(rnd, buf) if len(buf) < 100000 else fam_dsk.corrupt(rnd, buf)
            kind = "damaged-" + kind
        ik, iv = impl_sniff(buf)
        r = dict(content_enc(buf), op="vf.sniff", id=len(reqs))
        reqs.append(r)
        ctx.append((kind, buf, ik, iv))
    reps = drive(reqs)
    for (kind, buf, ik, iv), rep in zip(ctx, reps):
        mk = rep.get("k")
        run.case("vf.sniff", {"target": kind, "len": len(buf)}, [ik, iv[0] if ik == "ok" else None], nontrivial=True)
        run.dist["sniff." + kind + "." + (iv[0] if ik == "ok" else ik)] += 1
        a = [ik, iv[0], [fam_cas.proj(f) for f in iv[1]]] if ik == "ok" else [ik]
        b = [mk, rep.get("kind"), [fam_cas.proj(f) for f in rep.get("files", [])]] if mk == "ok" else [mk]
        if a != b:
            run.disagree("vf.sniff", {"target": kind, "content": content_enc(buf) if len(buf) < 3000 else {"len": len(buf)}}, a[:2], b[:2], "sniffed kind / files differ")
        # C09 oracle: images the tool wrote are recognised as their own kind
        if kind in ("cassette", "bigcas00", "bigcasFF", "bigcastext", "bigcasgap") and not (ik == "ok" and iv[0] == "cassette"):
            known = "G1" if len(buf) >= SIZE else None
            run.violate("C09: a cassette image written by the tool is not recognised as a cassette when re-opened",
                        {"target": kind, "len": len(buf)}, "cassette", [ik, iv[0] if ik == "ok" else iv], known_id=known if (a == b) else None)
        if kind == "disk" and not (ik == "ok" and iv[0] == "disk"):
            run.violate("C09: a disk image written by the tool is not recognised as a disk when re-opened",
                        {"target": kind}, "disk", [ik, iv[0] if ik == "ok" else iv])


# ---------------------------------------------------------------- workdir helpers

class WorkDir:
    def __init__(self):
        self.path = tempfile.mkdtemp(prefix="cocoverif-cli-")

    def write(self, name, content):
        with open(os.path.join(self.path, name), "wb") as fh:
            fh.write(bytes(content))

    def read(self, name):
        p = os.path.join(self.path, name)
        if not os.path.exists(p):
            return None
        with open(p, "rb") as fh:
            return list(fh.read())

    def listing(self):
        return sorted(os.listdir(self.path))

    def close(self):
        shutil.rmtree(self.path, ignore_errors=True)


def run_main(mod, ns, cwd):
    """call tool.main(args) in-process: (exit status, stdout)"""
    out = io.StringIO()
    old = os.getcwd()
    os.chdir(cwd)
    code = 0
    try:
        with contextlib.redirect_stdout(out), contextlib.redirect_stderr(io.StringIO()):
            try:
                mod.main(ns)
            except SystemExit as e:
                code = e.code if isinstance(e.code, int) else (0 if e.code is None else 1)
            except Exception:      # noqa  (an uncaught exception ends the process with status 1 and a traceback)
                code = 1
    finally:
        os.chdir(old)
    return code, out.getvalue()


def run_sub(script, argv, cwd):
    p = subprocess.run([PYTHON, os.path.join(REPO, script)] + argv, cwd=cwd, capture_output=True, text=True, timeout=60)
    return p.returncode, p.stdout


# ---------------------------------------------------------------- cli.asm

PROGRAMS = [
    (["        NAM     HELLO", "        ORG     $0E00", "START   LDA     #1", "        STA     $0400", "        RTS", "        END     START"], "HELLO"),
    (["        ORG     $3F00", "BEGIN   LDX     #$1234", "LOOP    LEAX    -1,X", "        BNE     LOOP", "        RTS"], None),
    (["        NAM     lower", "        ORG     $10", "S       NOP", "        FCB     1,2,3"], "lower"),
    (["        NAM     VERYLONGNAME", "S       CLRA", "        FDB     $55,$3C00"], "VERYLONGNAME"),
    # two ORGs before the first byte and label: the code lies at the LAST one, which is the origin / load address (seed C02-6)
    (["        NAM     TWOORG", "        ORG     $0E00", "        ORG     $3000", "GO      LDX     #GO", "        JMP     GO"], "TWOORG"),
    (["        NOP"], None),
    (["        ORG     $7000", "        RMB     3000", "        FCC     \"U<\"", "        RTS"], None),
    (["        ORG     $0E00", "        LDA     #300A"], None),            # rejected
    (["        ORG     $0E00", "L       BRA     L", "L       NOP"], None),   # rejected (duplicate label)
]


def sized_program(n, org=0x3000):
    """an accepted, named program of exactly n bytes (n >= 4)"""
    return (["        NAM     SIZED", "        ORG     $%04X" % org, "START   LDA     #1", "        RMB     %d" % (n - 3), "        RTS"], "SIZED")


def asm_namespace(src, to_bin=None, to_cas=None, to_dsk=None, name=None, append=False):
    return argparse.Namespace(filename=src, symbols=False, print=False, to_bin=to_bin, to_cas=to_cas, to_dsk=to_dsk,
                              name=name, append=append, width=100)


def run_asm_matrix(run, quick=True, sub_every=0, props=("C10", "C11")):
    """{--to_bin, --to_cas, --to_dsk} x {append, no append} x pre-existing target kinds, plus combined switches"""
    rnd = random.Random(run.seed * 131 + 9)
    cells = []
    kinds = TARGET_KINDS if not quick else ["absent", "empty", "cassette", "disk", "rawbin", "arbitrary", "bigcastext", "bigcasgap"]
    for sw in ("to_bin", "to_cas", "to_dsk"):
        for append in (False, True):
            for tk in kinds:
                for rep in range(1 if quick else 3):
                    cells.append(([sw], append, tk))
    for _ in range(6 if quick else 40):
        cells.append((rnd.sample(["to_bin", "to_cas", "to_dsk"], rnd.choice([2, 3])), rnd.random() < 0.5, rnd.choice(kinds)))
    sized = []
    if "C11" in props:
        # program sizes whose disk postamble straddles a granule boundary (first six boundaries of the fill order), and 255-block boundaries
        for gran in range(1, 7):
            for r in ((1, 3) if quick else (1, 2, 3, 4)):
                sized.append(gran * 2304 - 5 - r)
        sized += [254, 255, 256, 510, 700] if quick else [254, 255, 256, 509, 510, 511, 700, 2400, 65535]
        for n in sized:
            cells.append((["to_bin", "to_cas", "to_dsk"] if n % 2 else ["to_dsk"], False, "absent"))
    reqs, ctx = [], []
    for ci, (sws, append, tk) in enumerate(cells):
        prog, pname = (PROGRAMS[ci % 5] if ci < 3 * 2 * len(kinds) else PROGRAMS[rnd.randrange(len(PROGRAMS))]) if rnd.random() < 0.9 else (
            [l.rstrip("\n") for l in next(iter(gen_asm.random_programs(rnd, 1, 0.97)))["lines"]], None)
        if ci >= len(cells) - len(sized):
            prog, pname = sized_program(sized[ci - (len(cells) - len(sized))])
        argname = rnd.choice([None, "ARGNAME", "x"])
        wd = WorkDir()
        try:
            lines = [l + "\n" for l in prog]
            with open(os.path.join(wd.path, "src.asm"), "w") as fh:
                fh.write("".join(lines))
            before = {}
            targets = {}
            for sw in sws:
                fname = {"to_bin": "out.bin", "to_cas": "out.cas", "to_dsk": "out.dsk"}[sw]
                targets[sw] = fname
                content = make_target(rnd, tk)
                if content is not None:
                    wd.write(fname, content)
                before[fname] = content
            ns = asm_namespace("src.asm", name=argname, append=append, **targets)
            if sub_every and ci % sub_every == 0:
                argv = ["src.asm"] + sum([["--" + sw, targets[sw]] for sw in sws], []) + (["--name", argname] if argname else []) + (["--append"] if append else [])
                code, out = run_sub("assembler.py", argv, wd.path)
                run.dist["cli.asm.subprocess"] += 1
            else:
                code, out = run_main(asm_cli, ns, wd.path)
            after = {f: wd.read(f) for f in before}
            extra = [f for f in wd.listing() if f not in before and f != "src.asm"]
        finally:
            wd.close()
        req = {"op": "cli.asm", "id": len(reqs), "lines": lines,
               "fs": {f: content_enc(c) for f, c in before.items() if c is not None},
               "args": dict({"append": append}, **targets, **({"name": argname} if argname else {}))}
        reqs.append(req)
        ctx.append((sws, append, tk, lines, argname, before, after, code, out, extra, targets))
    # oracle requests: classify every before/after content with the specs
    reps = drive(reqs)
    oreqs = []
    for (sws, append, tk, lines, argname, before, after, code, out, extra, targets), rep in zip(ctx, reps):
        run.case("cli.asm", {"switches": sws, "append": append, "target": tk, "name": argname, "program": [l.strip() for l in lines][:4]},
                 [code, sorted(f for f in before if before[f] != after[f])], nontrivial=True)
        run.dist["cli.asm.%s.%s.%s" % ("+".join(sws), "append" if append else "noappend", tk)] += 1
        impl_fs = {f: content_dec(c) for f, c in after.items() if c is not None}
        model_fs = rep.get("fs", {})
        if code != rep.get("exit") or impl_fs != model_fs:
            diff = [f for f in set(impl_fs) | set(model_fs) if impl_fs.get(f) != model_fs.get(f)]
            run.disagree("cli.asm", {"lines": lines, "args": req_args(targets, append, argname), "target": tk,
                                     "before": {f: (content_enc(c) if c is not None and len(c) < 3000 else (None if c is None else {"len": len(c)})) for f, c in before.items()}},
                         [code, {f: _short(impl_fs.get(f)) for f in diff}], [rep.get("exit"), {f: _short(model_fs.get(f)) for f in diff}],
                         "exit status / files written differ")
        if extra:
            run.violate("C13/C10: an unexpected file appeared in the working directory", {"lines": lines, "args": req_args(targets, append, argname)}, [], extra)
        for sw, fname in targets.items():
            for when, content in (("before", before[fname]), ("after", after[fname])):
                if content is not None:
                    for op in ("spec.tape", "spec.fsck", "spec.dskread"):
                        oreqs.append(dict(content_enc(content), id=len(oreqs), op=op))
    oreps = iter(drive(oreqs))
    # second pass in the same order to consume the oracle replies
    for (sws, append, tk, lines, argname, before, after, code, out, extra, targets), rep in zip(ctx, reps):
        expect_ok = None
        for sw, fname in targets.items():
            cls = {}
            for when, content in (("before", before[fname]), ("after", after[fname])):
                if content is None:
                    cls[when] = {"absent": True}
                else:
                    t, f, r = next(oreps), next(oreps), next(oreps)
                    cls[when] = {"tape": t, "fsck": f, "dskread": r, "len": len(content)}
            check_c10_c11(run, sw, fname, append, tk, lines, argname, before[fname], after[fname], cls, code, out, rep, props)


def req_args(targets, append, argname):
    return dict({"append": append}, **targets, **({"name": argname} if argname else {}))


def _short(c):
    if c is None:
        return None
    c = dict(c)
    for k in ("hex", "fat", "dir"):
        if k in c and len(c[k]) > 200:
            c[k] = c[k][:200] + "..."
    return c


def is_image(cls, kind):
    """is this (pre-existing) content an image of the container kind? decided by the specs only"""
    if cls.get("absent"):
        return False
    if kind == "to_cas":
        return cls["tape"]["ok"] and (len(cls["tape"]["files"]) > 0 or cls["len"] == 0)
    if kind == "to_dsk":
        return cls["fsck"]["ok"]
    return True      # every byte string is a raw binary


def check_c10_c11(run, sw, fname, append, tk, lines, argname, before, after, cls, code, out, model_rep, props=("C10", "C11")):
    inp = {"lines": lines, "switch": sw, "append": append, "target": tk, "name": argname}
    changed = before != after
    # ---- C10
    if "C10" not in props:
        if changed and after is not None and (before is None or (append and is_image(cls["before"], sw))):
            good = (sw == "to_bin") or (sw == "to_cas" and cls["after"]["tape"]["ok"] and cls["after"]["tape"]["files"]) or \
                (sw == "to_dsk" and cls["after"]["fsck"]["ok"] and cls["after"]["dskread"]["ok"] and cls["after"]["dskread"]["files"])
            if good:
                check_c11(run, inp, sw, lines, argname, after, cls, before)
        return
    if changed and before is not None and not (append and is_image(cls["before"], sw)):
        known = None
        if tk.startswith("bigcas") and sw == "to_dsk" and append:
            known = "G1"
        run.violate("C10: an existing target was modified although append does not apply to it (no append flag, or content of another kind)",
                    inp, "unchanged ({} bytes)".format(len(before)), "changed to {} bytes".format(len(after) if after is not None else None), known_id=known)
    if not changed and before is not None and code == 0 and sw in ("to_cas", "to_dsk", "to_bin"):
        # the save was refused (or nothing to save): the user must have been told
        if "Unable to save" not in out and "not creating" not in out and not (code != 0):
            run.violate("C10: the save was refused but the user was not told why", inp, "a message", out[-300:])
    # ---- C11 / C10 part 2: what was written is a complete image of the requested kind holding the program
    if changed and after is not None:
        good = True
        why = ""
        if sw == "to_cas":
            good = cls["after"]["tape"]["ok"] and len(cls["after"]["tape"]["files"]) >= 1
            why = "strict tape parser rejects it or finds no file"
        elif sw == "to_dsk":
            good = cls["after"]["fsck"]["ok"] and cls["after"]["dskread"]["ok"] and len(cls["after"]["dskread"]["files"]) >= 1
            why = "fsck: " + ",".join(cls["after"]["fsck"].get("failed", []))
        if not good:
            run.violate("C10/C11: the file written is not a complete image of the requested kind", inp, sw, why)
            return
        check_c11(run, inp, sw, lines, argname, after, cls, before)


def check_c11(run, inp, sw, lines, argname, after, cls, before):
    """the image holds the assembled program under its name at its origin"""
    import fam_asm
    im = fam_asm.impl_prog(lines)
    if im["k"] != "ok" or im.get("image") is None:
        run.violate("C13/C11: output written although assembly did not succeed", inp, "no output", "file written")
        return
    image = im["image"]
    origin = im.get("originInt") or 0
    # the image must be loaded where the listing puts its first byte: that address, not merely what the tool reports as origin
    first = next((st for st in im["stmts"] if st["bytes"]), None)
    if first is not None and first["addr"]:
        origin = int(first["addr"], 16)
    pname = im.get("name") or argname
    if sw == "to_bin":
        if hexs(after) != image:
            run.violate("C11: the raw binary is not byte-for-byte the assembled image", inp, image[:200], hexs(after)[:200])
        return
    want_name = [c - 32 if 97 <= c <= 122 else c for c in ([ord(ch) for ch in pname][:8] + [0x20] * 8)[:8]]
    files = cls["after"]["tape"]["files"] if sw == "to_cas" else cls["after"]["dskread"]["files"]
    last = files[-1]
    got_name = [c - 32 if 97 <= c <= 122 else c for c in last["name"]]
    ok = (last["data"] == image and last["load"] == origin and last["exec"] == origin and got_name == want_name and last["ftype"] == 2)
    if not ok:
        run.violate("C11: the image does not hold the assembled program (data / load / exec / name / type)", inp,
                    {"data": image[:120], "load": origin, "exec": origin, "name": want_name},
                    {"data": last["data"][:120], "load": last["load"], "exec": last["exec"], "name": last["name"], "ftype": last["ftype"]})
    # appended: the earlier files are still there, in order, before the new one
    if before is not None and cls["before"].get("tape") is not None:
        # (the old content may not be an image of this kind at all when the target was wrongly rewritten: no files then)
        old = ((cls["before"].get("tape") or {}).get("files") or []) if sw == "to_cas" else ((cls["before"].get("dskread") or {}).get("files") or [])
        if [_key(f) for f in files[:-1]] != [_key(f) for f in old]:
            run.violate("C09/C10: appending disturbed the files already stored", inp, [f["name"] for f in old], [f["name"] for f in files[:-1]])


def _key(f):
    return (tuple(f["name"]), f["ftype"], f["dtype"], f["load"], f["exec"], f["data"])


# ---------------------------------------------------------------- vf.hist (C09)

def run_hist(run, n, thorough=False):
    """interleavings of add(file) and save/re-open on a real temp file through VirtualFile, both container kinds"""
    rnd = random.Random(run.seed * 977 + 1)
    for it in range(n):
        kind = rnd.choice(["cassette", "disk"])
        wd = WorkDir()
        model_fs = {}
        stored = []
        reqs = []
        steps_info = []
        try:
            path = os.path.join(wd.path, "img")
            nsteps = rnd.choice([2, 3, 4, 6] if not thorough else [3, 6, 10, 16])
            ok = True
            for s in range(nsteps):
                batch = []
                for _ in range(rnd.choice([1, 1, 2, 3])):
                    if kind == "cassette":
                        batch.append(fam_cas.gen_file(rnd, fam_cas.LENS_QUICK, allow_empty=False))
                    else:
                        batch.append(fam_dsk.gen_file(rnd, fam_dsk.boundary_lens(), 12000))

                def go():
                    v = VirtualFile(SourceFile(path, file_type=SourceFileType.BINARY), VFT[kind])
                    v.open_virtual_file()
                    for f in batch:
                        v.add_coco_file(fam_dsk.to_coco(f) if kind == "disk" else fam_cas.to_coco(f))
                    v.save_virtual_file(append_mode=True)
                    return True
                k, v = guarded(go, 60, diag=(VirtualFileValidationError, FileExistsError))
                content = wd.read("img")
                steps_info.append((batch, k, content))
                if k != "ok":
                    break
                stored += batch
            # replay on the model step by step
            cur = None
            for batch, k, content in steps_info:
                req = {"op": "vf.store", "path": "img", "kind": kind, "files": batch, "append": True,
                       "fs": ({"img": content_enc(cur)} if cur is not None else {})}
                reqs.append(req)
                cur = content if content is not None else cur
            final = wd.read("img")
        finally:
            wd.close()
        for i, r in enumerate(reqs):
            r["id"] = i
        reps = drive(reqs, jobs=1)
        run.case("vf.hist", {"kind": kind, "steps": [len(b) for b, _, _ in steps_info], "ended": steps_info[-1][1]},
                 [kind, len(stored), steps_info[-1][1]], nontrivial=True)
        for (batch, k, content), rep in zip(steps_info, reps):
            mk = rep.get("k")
            mk = "timeout" if mk == "diverged" else mk
            same = (k == mk)
            if same and k == "ok":
                same = rep["fs"].get("img") == content_dec(content)
            if not same:
                run.disagree("vf.hist", {"kind": kind, "batch": batch}, [k], [mk], "virtual file history step differs")
                break
        # oracle: the final image lists every stored file, in order (reader of the implementation AND the spec reader)
        if final is not None:
            lk, lv = (fam_cas.impl_list(final) if kind == "cassette" else fam_dsk.impl_list(final))
            want = [fam_cas.norm(f) for f in stored] if kind == "cassette" else [fam_dsk.norm(f) for f in stored]
            got = ([fam_cas.proj(f) for f in lv] if kind == "cassette" else [fam_dsk.proj(f) for f in lv]) if lk == "ok" else None
            if got != want:
                run.violate("C09: after a history of additions and save/re-open steps a stored file is missing, changed or out of order",
                            {"kind": kind, "files": stored if len(str(stored)) < 4000 else "(large)"}, "(all stored files, in order)",
                            [lk, [f["name"] for f in (got or [])]])


# ---------------------------------------------------------------- cli.util (C16)

def util_namespace(host, to_bin=None, to_cas=None, to_dsk=None, files=None, append=False):
    return argparse.Namespace(host_filename=host, append=append, list=False, to_bin=to_bin, to_cas=to_cas, to_dsk=to_dsk, files=files)


def case_variants(rnd, name):
    return rnd.choice([name, name.upper(), name.lower(), name.capitalize()])


def run_util(run, n):
    rnd = random.Random(run.seed * 313 + 77)
    reqs, ctx = [], []
    for it in range(n):
        srckind = rnd.choice(["cassette", "disk"])
        nf = rnd.choice([1, 1, 2, 3, 4])
        if srckind == "cassette":
            files = [fam_cas.gen_file(rnd, fam_cas.LENS_QUICK, allow_empty=False) for _ in range(nf)]
            for f in files:      # names that survive a disk (letters/digits), distinct, either case
                f["name"] = [ord(c) for c in "".join(rnd.choice("ABCxyz019") for _ in range(rnd.choice([1, 3, 8])))]
                if f["ftype"] != 2:
                    f["load"] = f["exec"] = 0
            if nf >= 2 and rnd.random() < 0.3:
                # two files of the same name (a tape may hold a name twice, also in another letter case)
                j = rnd.randrange(1, nf)
                files[j]["name"] = [ord(ch) for ch in rnd.choice([str.upper, str.lower, str])("".join(chr(c) for c in files[0]["name"]))]
            src = fam_cas.impl_write(files)[1]
        else:
            files = [fam_dsk.gen_file(rnd, fam_dsk.boundary_lens(), 9000) for _ in range(nf)]
            if nf >= 2 and rnd.random() < 0.3:
                # two directory entries of the same name (GAME.BAS and GAME.BIN, or the very same name and extension)
                j = rnd.randrange(1, nf)
                files[j]["name"] = list(files[0]["name"])
                if rnd.random() < 0.4:
                    files[j]["ext"] = list(files[0]["ext"])
            src = fam_dsk.impl_write(None, files)[1]
        names = ["".join(chr(c) for c in f["name"])[:8] for f in files]
        mode = rnd.choice(["to_cas", "to_dsk", "to_bin", "chain"])
        sel = None
        if rnd.random() < 0.5:
            sel = [case_variants(rnd, n_) for n_ in rnd.sample(names, rnd.randrange(1, len(names) + 1))]
            if rnd.random() < 0.2:
                sel.append("NOSUCH")
        pre = rnd.choice([None, None, None, "empty", "cassette", "disk"])
        append = rnd.random() < 0.4
        wd = WorkDir()
        try:
            wd.write("src.img", src)
            tgt = {"to_cas": "t.cas", "to_dsk": "t.dsk", "to_bin": "t.bin", "chain": "t.mid"}[mode]
            before = None
            if pre is not None:
                before = make_target(rnd, pre)
                wd.write(tgt, before)
            if mode != "chain":
                ns = util_namespace("src.img", files=sel, append=append, **{mode: tgt})
                code, out = run_main(util_cli, ns, wd.path)
                after = wd.read(tgt)
                back = None
            else:
                other = "to_dsk" if srckind == "cassette" else "to_cas"
                same = "to_cas" if srckind == "cassette" else "to_dsk"
                code, out = run_main(util_cli, util_namespace("src.img", files=sel, append=append, **{other: tgt}), wd.path)
                after = wd.read(tgt)
                code2, out2 = run_main(util_cli, util_namespace(tgt, **{same: "t.back"}), wd.path) if code == 0 else (None, "")
                back = wd.read("t.back")
        finally:
            wd.close()
        fsd = {"src.img": content_enc(src)}
        if before is not None:
            fsd[tgt] = content_enc(before)
        args = {"host": "src.img", "append": append}
        if sel is not None:
            args["files"] = sel
        args[mode if mode != "chain" else ("to_dsk" if srckind == "cassette" else "to_cas")] = tgt
        reqs.append({"op": "cli.util", "id": len(reqs), "fs": fsd, "args": args})
        ctx.append((srckind, files, mode, sel, pre, append, before, after, code, back, tgt, src))
    reps = drive(reqs)
    oreqs = []
    for (srckind, files, mode, sel, pre, append, before, after, code, back, tgt, src), rep in zip(ctx, reps):
        run.case("cli.util", {"src": srckind, "nfiles": len(files), "mode": mode, "files": sel, "pre": pre, "append": append}, [code], nontrivial=True)
        run.dist["cli.util.%s.%s.%s" % (srckind, mode, "sel" if sel else "all")] += 1
        impl_t = content_dec(after) if after is not None else None
        model_t = rep.get("fs", {}).get(tgt)
        if code != rep.get("exit") or impl_t != model_t:
            run.disagree("cli.util", {"src": srckind, "files": files if len(str(files)) < 3000 else "(large)", "args": reqs[ctx.index((srckind, files, mode, sel, pre, append, before, after, code, back, tgt, src))]["args"], "pre": pre},
                         [code, _short(impl_t)], [rep.get("exit"), _short(model_t)], "file_util result differs")
        for content in (after, back):
            if content is not None:
                oreqs.append(dict(content_enc(content), id=len(oreqs), op="spec.tape"))
                oreqs.append(dict(content_enc(content), id=len(oreqs), op="spec.dskread"))
    oreps = iter(drive(oreqs))
    for (srckind, files, mode, sel, pre, append, before, after, code, back, tgt, src) in ctx:
        ot = od = bt = bd = None
        if after is not None:
            ot, od = next(oreps), next(oreps)
        if back is not None:
            bt, bd = next(oreps), next(oreps)
        check_c16(run, srckind, files, mode, sel, pre, append, before, after, code, back, ot, od, bt, bd)


def selected_files(files, sel):
    if sel is None:
        return list(files)
    up = [s.upper() for s in sel]
    return [f for f in files if "".join(chr(c) for c in f["name"]).strip().replace("\0", "").upper()[:8 if False else None] in up
            or "".join(chr(c) for c in f["name"])[:8].strip().upper() in up]


def ckey(f, upper=True):
    name = [c - 32 if 97 <= c <= 122 else c for c in f["name"]]
    name = [c for c in name[:8] if c != 0x20]
    ml = f["ftype"] == 2
    return (tuple(name), f["ftype"], f["dtype"], f["load"] if ml else 0, f["exec"] if ml else 0, f["data"])


def check_c16(run, srckind, files, mode, sel, pre, append, before, after, code, back, ot, od, bt, bd):
    inp = {"src": srckind, "files": [dict(f, data=f["data"][:40]) for f in files], "mode": mode, "select": sel, "pre": pre, "append": append}
    stored = [dict(fam_cas.norm(f), name=fam_cas.norm(f)["name"]) for f in files] if srckind == "cassette" else [fam_dsk.norm(f) for f in files]
    want = selected_files(files, sel)
    refused_ok = (before is not None and not append) or (pre in ("cassette", "disk", "empty") and pre is not None)
    if mode == "to_bin":
        if len(files) > 1:
            if code == 0 or (after is not None and after != before):
                run.violate("C16: --to_bin must refuse when the image holds more than one file", inp, "non-zero exit, nothing written", [code])
            return
        if before is None and code == 0:
            exp = want[0]["data"] if want else ""
            if hexs(after or []) != exp:
                run.violate("C16: --to_bin does not write the single file's data byte for byte", inp, exp[:100], hexs(after or [])[:100])
        return
    if before is not None:
        return       # appending / refusing onto existing targets is C10's business; C16 looks at fresh targets
    if code != 0 or after is None:
        run.violate("C16: conversion failed", inp, "exit 0 and a target image", [code])
        return
    tk = "cassette" if (mode == "to_cas" or (mode == "chain" and srckind == "disk")) else "disk"
    listed = (ot["files"] if ot and ot["ok"] else None) if tk == "cassette" else (od["files"] if od and od["ok"] else None)
    if listed is None or [ckey(f) for f in listed] != [ckey(f) for f in want]:
        run.violate("C16: the converted image does not list exactly the selected files of the source, in order, unchanged", inp,
                    [("".join(chr(c) for c in f["name"]), len(f["data"]) // 2) for f in want],
                    None if listed is None else [("".join(chr(c) for c in f["name"]), len(f["data"]) // 2) for f in listed])
        return
    if mode == "chain" and back is not None:
        bl = (bt["files"] if bt and bt["ok"] else None) if srckind == "cassette" else (bd["files"] if bd and bd["ok"] else None)
        if bl is None or [ckey(f) for f in bl] != [ckey(f) for f in want]:
            # E1: the tool's cassette reader stops at a file with empty data, so a chain through a cassette loses it and what follows
            e1 = any(f["data"] == "" for f in want)
            pred = []
            for f in want:
                if f["data"] == "":
                    break
                pred.append(ckey(f))
            known = "E1" if (e1 and bl is not None and [ckey(f) for f in bl] == pred) else None
            run.violate("C16: converting back does not yield the original file set", inp, [ckey(f)[0] for f in want], None if bl is None else [ckey(f)[0] for f in bl],
                        known_id=known)
