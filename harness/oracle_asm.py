"""
harness/oracle_asm.py — the failing-input search for the single-statement properties C01 and C12:
the implementation's bytes are decoded by the Lean datasheet decoder (driver op spec.decode) and compared
with what the SOURCE FORM means under the README grammar.  No use of the model here.
"""
from common import drive

REG = {"X": 0, "Y": 1, "U": 2, "S": 3}
ACC = {"B": 5, "A": 6, "D": 11}
PAIR = {"D": 0, "X": 1, "Y": 2, "U": 3, "S": 4, "PC": 5, "A": 8, "B": 9, "CC": 10, "DP": 11}

_spec = {}


def spec_modes():
    """operation -> set of addressing modes, straight from the trusted datasheet map (Spec.MC6809.opcodeMap)"""
    if not _spec:
        rep = drive([{"id": 0, "op": "spec.opmodes"}])[0]
        modes = {}
        for code, op, am in rep["map"]:
            modes.setdefault(op, set()).add(am)
        _spec["modes"] = modes
        _spec["alias"] = {a: b for a, b in rep["aliases"]}
    return _spec["modes"], _spec["alias"]


def op_of(mn):
    modes, alias = spec_modes()
    return alias.get(mn, mn)


def expectation(meta, label_addr=None):
    """(valid, predicate on the decoded instruction) for a generated statement form"""
    modes, alias = spec_modes()
    M = modes.get(op_of(meta["mn"]), set())
    form = meta["form"]
    v = meta.get("v")
    if form.endswith("+1") and form not in ("extind+1", "idxlbl+1"):
        form, v = form[:-2], (v + 1 if v is not None else None)
    if label_addr is not None:
        base = label_addr
        delta = {"mem+1": 1, "mem-1": -1, "imm+1": 2, "extind+1": 1, "idxlbl+1": 1}.get(meta["form"], 0)
        v = (base + delta) % 65536       # label - constant below address 0 is reduced modulo 65536 (C04 allows it; fix 1477b47)
        form = {"mem+1": "mem", "mem-1": "mem", "imm+1": "imm", "extind+1": "extind", "idxlbl": "idxsym", "idxlbl+1": "idxsym"}.get(meta["form"], meta["form"])
        if meta["form"] in ("idxlbl", "idxlbl+1"):
            meta = dict(meta, reg="X")
    if form == "inh":
        return "inh" in M, lambda d: d["mode"] == "inh"
    if form == "imm":
        w = 8 if "imm8" in M else 16 if "imm16" in M else None
        ok = w is not None and -(1 << (w - 1)) <= v < (1 << w)
        return ok, lambda d: d["mode"] == "imm" and d["w"] == w and d["v"] == v % (1 << w)
    if form == "mem":
        ok = ("ext" in M and 0 <= v <= 65535) or ("dir" in M and 0 <= v < 256)
        return ok, lambda d: (d["mode"] == "dir" and d["a"] == v and v < 256) or (d["mode"] == "ext" and d["a"] == v)
    if form == "dirf":
        return "dir" in M and 0 <= v < 256, lambda d: d["mode"] == "dir" and d["a"] == v
    if form == "extf":
        return "ext" in M and 0 <= v <= 65535, lambda d: d["mode"] == "ext" and d["a"] == v
    if form == "extind":
        return "idx" in M and 0 <= v <= 65535, lambda d: d["mode"] == "idx" and d["k"] == "extind" and d["addr"] == v
    if form in ("idxsym", "idxsymind"):
        ind = form == "idxsymind"
        reg = REG[meta.get("reg", "Y")]
        return "idx" in M and -32768 <= v <= 65535, lambda d: _off_ok(d, v, reg, ind)
    if form == "idx":
        k = meta["k"]
        ind = meta["ind"]
        reg = REG[meta["reg"]]
        if k in ("off0", "inc1", "inc2", "dec1", "dec2"):
            ok = "idx" in M and not (ind and k in ("inc1", "dec1"))
            if k == "off0":
                return ok, lambda d: _off_ok(d, 0, reg, ind)
            return ok, lambda d: d["mode"] == "idx" and d["k"] == k and d["reg"] == reg and d["ind"] == ind
        if k == "acc":
            a = ACC[meta["acc"]]
            return "idx" in M, lambda d: d["mode"] == "idx" and d["k"] == "acc" and d["acc"] == a and d["reg"] == reg and d["ind"] == ind
        if k == "off":
            return "idx" in M and -32768 <= v <= 65535, lambda d: _off_ok(d, v, reg, ind)
    if form == "npcr":
        ind = meta["ind"]
        return "idx" in M and -32768 <= v <= 65535, lambda d: d["mode"] == "idx" and d["k"] == "pcr" and d["ind"] == ind and (d["off"] - v) % 65536 == 0
    if form == "pair":
        return meta["valid"], lambda d: d["mode"] == "pair" and d["src"] == PAIR[meta["a"]] and d["dst"] == PAIR[meta["b"]]
    if form == "list":
        return meta["valid"], lambda d: d["mode"] == "list" and d["mask"] == meta["mask"]
    return None, None


def _off_ok(d, v, reg, ind):
    if d["mode"] != "idx" or d["k"] != "off" or d["reg"] != reg or d["ind"] != ind:
        return False
    if (d["off"] - v) % 65536 != 0:
        return False
    if d["w"] == 5 and ind:
        return False
    return True


def decode_all(hex_list):
    reps = drive([{"id": i, "op": "spec.decode", "hex": h} for i, h in enumerate(hex_list)])
    return reps


def judge_statement(meta, impl, stmt_index, decoded, label_addr=None):
    """returns None if the property holds on this case, else (class, detail).
    impl: result of fam_asm.impl_prog; decoded: reply of spec.decode for the statement's bytes (or None)."""
    valid, pred = expectation(meta, label_addr)
    if valid is None:
        return None
    if impl["k"] == "diag":
        return ("REJECTED_VALID", None) if valid else None
    if impl["k"] != "ok":
        return ("CRASH_" + impl["k"], impl.get("exc"))
    st = impl["stmts"][stmt_index]
    if st["bytes"] is None:
        return ("CRASH_emit", None)
    if not valid:
        return ("ACCEPTED_INVALID", st["bytes"])
    if decoded is None or not decoded.get("ok"):
        return ("WRONG_undecodable", st["bytes"])
    if decoded["n"] != len(st["bytes"]) // 2:
        return ("WRONG_trailing", st["bytes"])
    if st["size"] != len(st["bytes"]) // 2:
        return ("WRONG_size", [st["bytes"], st["size"]])
    if decoded["opn"] != op_of(meta["mn"]) or not pred(decoded):
        return ("WRONG_meaning", [st["bytes"], {k: decoded[k] for k in decoded if k not in ("id", "ok")}])
    return None


def judge_accepted(mn, st, decoded):
    """C12: whatever was accepted must decode as exactly one instruction of that mnemonic, consuming all bytes,
    as many as the listing reserves"""
    if st["bytes"] is None:
        return ("CRASH_emit", None)
    nb = len(st["bytes"]) // 2
    if decoded is None or not decoded.get("ok"):
        return ("undecodable", st["bytes"])
    if decoded["n"] != nb:
        return ("trailing", st["bytes"])
    if st["size"] != nb:
        return ("size", [st["bytes"], st["size"]])
    if decoded["opn"] != op_of(mn):
        return ("other-instruction", [st["bytes"], decoded["opn"]])
    return None
