#!/usr/bin/env python3
"""Print the rows of DESIGN.md section 9 (seed | change | caught by | run, not alarmed) from seeded/*/meta.json.
usage: seed_table.py [seed-id ...]   (no argument: every live seed)"""
import json, os, sys

ROOT = os.path.join(os.path.dirname(os.path.abspath(__file__)), "..", "seeded")


def row(sid):
    m = json.load(open(os.path.join(ROOT, sid, "meta.json")))
    s = " ".join(str(m.get("summary", "")).split()).replace("|", "/")[:230]
    cr = m.get("checks_run", {})
    caught = ", ".join(cr.get("caught_by", [])) or "-"
    quiet = ", ".join(x.split("(")[0] for x in cr.get("not_caught_by", [])) or "-"
    return "| %s | %s | %s | %s |" % (sid, s, caught, quiet)


if __name__ == "__main__":
    ids = sys.argv[1:] or sorted(d for d in os.listdir(ROOT)
                                 if d != "retired" and os.path.isfile(os.path.join(ROOT, d, "meta.json")))
    for i in ids:
        print(row(i))
