"""
harness/families.py — which streams each property subscribes to, with the budget of each tier.
"""
import json
import os

from common import VERIF


def corpus(name):
    p = os.path.join(VERIF, "corpus", name + ".jsonl")
    if not os.path.exists(p):
        return []
    with open(p) as fh:
        return [json.loads(l) for l in fh if l.strip()]


def run(prop, spec, run_):
    tier = run_.tier
    if prop == "C14":
        import fam_cas
        n = 150 if tier == "quick" else 1500
        fam_cas.run_streams(run_, {"cas.write"}, {"cas.write": n},
                            fam_cas.LENS_QUICK if tier == "quick" else fam_cas.LENS_THOROUGH, corpus("cas_files"))
    elif prop == "C06":
        import fam_cas
        q = tier == "quick"
        fam_cas.run_streams(run_, {"cas.rt", "cas.tape", "cas.corrupt"},
                            {"cas.rt": 120 if q else 1200, "cas.tape": 120 if q else 1200, "cas.corrupt": 300 if q else 4000},
                            fam_cas.LENS_QUICK if q else fam_cas.LENS_THOROUGH, corpus("cas_files"))
    else:
        raise KeyError(prop)


def replay(prop, spec, run_, doc):
    """re-run the input of a replay file through the property's streams"""
    inp = doc.get("input") or {}
    if prop in ("C06", "C14") and "files" in inp:
        import fam_cas
        fam_cas.run_streams(run_, {"cas.write"} if prop == "C14" else {"cas.rt"}, {}, fam_cas.LENS_QUICK, [inp["files"]])
    else:
        run(prop, spec, run_)
