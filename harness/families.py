"""
harness/families.py — which streams each property subscribes to, with the budget of each tier.
"""
import json
import os

from common import VERIF


def corpus(name):
    p = os.path.join(VERIF, "corpus", name + ".jsonl")
    if not os.path.exists(p):
        return []
    with open(p) as fh:
        return [json.loads(l) for l in fh if l.strip()]


def run(prop, spec, run_):
    tier = run_.tier
    if prop == "C14":
        import fam_cas
        n = 150 if tier == "quick" else 1500
        fam_cas.run_streams(run_, {"cas.write"}, {"cas.write": n},
                            fam_cas.LENS_QUICK if tier == "quick" else fam_cas.LENS_THOROUGH, corpus("cas_files"))
    elif prop == "C06":
        import fam_cas
        q = tier == "quick"
        fam_cas.run_streams(run_, {"cas.rt", "cas.tape", "cas.corrupt"},
                            {"cas.rt": 120 if q else 1200, "cas.tape": 120 if q else 1200, "cas.corrupt": 300 if q else 4000},
                            fam_cas.LENS_QUICK if q else fam_cas.LENS_THOROUGH, corpus("cas_files"))
    elif prop in ("C07", "C08", "C15"):
        import fam_dsk
        q = tier == "quick"
        if prop == "C08":
            want = {"dsk.write", "dsk.geom", "dsk.fill"}
            counts = {"dsk.write": 30 if q else 400, "dsk.fill": 2 if q else 12, "dsk.sweep": 0 if q else 1}
        elif prop == "C07":
            want = {"dsk.rt", "dsk.frag", "dsk.corrupt"}
            counts = {"dsk.rt": 30 if q else 300, "dsk.frag": 40 if q else 500, "dsk.corrupt": 120 if q else 2000, "dsk.sweep": 0 if q else 1}
        else:
            want = {"dsk.fill", "dsk.write", "dsk.geom"}
            counts = {"dsk.fill": 5 if q else 40, "dsk.write": 12 if q else 100}
        fam_dsk.run_streams(run_, want, counts, thorough=not q, corpus=corpus("dsk_histories"))
    else:
        raise KeyError(prop)


def replay(prop, spec, run_, doc):
    """re-run the input of a replay file through the property's streams"""
    inp = doc.get("input") or {}
    if prop in ("C06", "C14") and "files" in inp:
        import fam_cas
        fam_cas.run_streams(run_, {"cas.write"} if prop == "C14" else {"cas.rt"}, {}, fam_cas.LENS_QUICK, [inp["files"]])
    else:
        run(prop, spec, run_)
