"""
harness/families.py — which streams each property subscribes to, with the budget of each tier.
"""
import json
import os

from common import VERIF


def corpus(name):
    p = os.path.join(VERIF, "corpus", name + ".jsonl")
    if not os.path.exists(p):
        return []
    with open(p) as fh:
        return [json.loads(l) for l in fh if l.strip()]


def run(prop, spec, run_):
    tier = run_.tier
    if prop == "C14":
        import fam_cas
        n = 150 if tier == "quick" else 1500
        fam_cas.run_streams(run_, {"cas.write"}, {"cas.write": n},
                            fam_cas.LENS_QUICK if tier == "quick" else fam_cas.LENS_THOROUGH, corpus("cas_files"))
    elif prop == "C06":
        import fam_cas
        q = tier == "quick"
        fam_cas.run_streams(run_, {"cas.rt", "cas.tape", "cas.corrupt"},
                            {"cas.rt": 120 if q else 1200, "cas.tape": 120 if q else 1200, "cas.corrupt": 300 if q else 4000},
                            fam_cas.LENS_QUICK if q else fam_cas.LENS_THOROUGH, corpus("cas_files"))
    elif prop in ("C07", "C08", "C15"):
        import fam_dsk
        q = tier == "quick"
        if prop == "C08":
            want = {"dsk.write", "dsk.geom", "dsk.fill"}
            counts = {"dsk.write": 20 if q else 400, "dsk.fill": 2 if q else 12, "dsk.sweep": 1 if q else 2}
        elif prop == "C07":
            want = {"dsk.rt", "dsk.frag", "dsk.corrupt"}
            counts = {"dsk.rt": 20 if q else 300, "dsk.frag": 40 if q else 500, "dsk.corrupt": 120 if q else 2000, "dsk.sweep": 1 if q else 2}
        else:
            want = {"dsk.fill", "dsk.write", "dsk.geom"}
            counts = {"dsk.fill": 5 if q else 40, "dsk.write": 12 if q else 100, "dsk.sweep": 1 if q else 2}
        fam_dsk.run_streams(run_, want, counts, thorough=not q, corpus=corpus("dsk_histories"))
    elif prop in ASM_PROPS:
        import props_asm
        getattr(props_asm, ASM_PROPS[prop])(run_, tier != "quick")
    elif prop == "C10":
        import fam_cli
        q = tier == "quick"
        fam_cli.run_asm_matrix(run_, quick=q, sub_every=9 if q else 4)
        fam_cli.run_util(run_, 30 if q else 400)
        fam_cli.run_sniff(run_, 30 if q else 300)
    elif prop == "C09":
        import fam_cli
        q = tier == "quick"
        fam_cli.run_sniff(run_, 60 if q else 600)
        fam_cli.run_hist(run_, 10 if q else 120, thorough=not q)
        import fam_dsk
        fam_dsk.run_streams(run_, {"dsk.rt"}, {"dsk.rt": 6 if q else 100, "dsk.sweep": 1 if q else 2}, thorough=not q, corpus=corpus("dsk_histories"))
    elif prop == "C11":
        import fam_cli
        fam_cli.run_asm_matrix(run_, quick=(tier == "quick"), sub_every=6 if tier == "quick" else 3, props=("C11",))
    elif prop == "C16":
        import fam_cli
        fam_cli.run_util(run_, 80 if tier == "quick" else 1200)
    else:
        raise KeyError(prop)


ASM_PROPS = {"C01": "run_c01", "C12": "run_c12", "C02": "run_c02", "C03": "run_c03", "C04": "run_c04", "C05": "run_c05",
             "C13": "run_c13", "C17": "run_c17", "C18": "run_c18", "C19": "run_c19"}


def replay(prop, spec, run_, doc):
    """re-run the input of a replay file through the property's streams"""
    inp = doc.get("input") or {}
    if prop in ("C06", "C14") and "files" in inp:
        import fam_cas
        fam_cas.run_streams(run_, {"cas.write"} if prop == "C14" else {"cas.rt"}, {}, fam_cas.LENS_QUICK, [inp["files"]])
    else:
        run(prop, spec, run_)
