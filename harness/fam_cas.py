"""
harness/fam_cas.py — cassette streams (properties C06, C14; reused by C09, C16).

Streams
  cas.write   impl add_files(fs) buffer  vs  model Cas.write        + oracle spec.tape on the impl buffer   (C14)
  cas.rt      impl list(write(fs))       vs  model Cas.list          + oracle == norm(fs)                    (C06 a)
  cas.tape    impl list(spec tape)       vs  model Cas.list          + oracle == files of the tape           (C06 b)
  cas.corrupt impl list(damaged bytes)   vs  model Cas.list (outcome kind, files when ok)                   (tie of the guarded steps)
"""
import random

from common import drive, hexs, repo_import_path
from framework import guarded

repo_import_path()
from cocoasm.virtualfiles.cassette import CassetteFile            # noqa: E402
from cocoasm.virtualfiles.coco_file import CoCoFile                # noqa: E402
from cocoasm.virtualfiles.virtual_file_exceptions import VirtualFileValidationError   # noqa: E402
from cocoasm.values import NumericValue, NoneValue                 # noqa: E402

NAME_ALPHA = "ABCXYZabcxyz0189_-.$#@!<>'\"%&*(),+/:;=?[]^{}|~"
LENS_QUICK = [0, 1, 2, 254, 255, 256, 257, 509, 510, 511, 764, 765, 766, 1020]
LENS_THOROUGH = LENS_QUICK + [1275, 2295, 2304, 4095, 4096, 16383, 32767, 32768, 65534, 65535]
ADDRS = [0, 1, 0x55, 0xFF, 0x100, 0x3C00, 0x553C, 0x3C55, 0x7FFF, 0x8000, 0xFFFE, 0xFFFF]


def frame(ty, p):
    return [0x55, 0x3C, ty, len(p)] + list(p) + [(ty + len(p) + sum(p)) & 0xFF, 0x55]


def rdata(rnd, n):
    k = rnd.random()
    if k < 0.3:
        return [rnd.choice([0x55, 0x3C, 0x00, 0x01, 0xFF]) for _ in range(n)]
    if k < 0.45:
        return ([0x55, 0x3C, 0x00] * (n // 3 + 1))[:n]
    if k < 0.55:
        return ([0x55, 0x3C, 0xFF, 0x00, 0xFF, 0x55] * (n // 6 + 1))[:n]
    return [rnd.randrange(256) for _ in range(n)]


def gen_file(rnd, lens, allow_empty=True):
    name = "".join(rnd.choice(NAME_ALPHA) for _ in range(rnd.choice([0, 1, 3, 7, 8, 8, 9, 12])))
    n = rnd.choice(lens) if rnd.random() < 0.75 else rnd.randrange(0, 1600)
    if n == 0 and not allow_empty:
        n = 1
    return {"name": [ord(c) for c in name], "ext": [ord(c) for c in "BIN"], "ftype": rnd.choice([0, 1, 2, 2, 3]),
            "dtype": rnd.choice([0, 0xFF]), "gaps": rnd.choice([0, 0, 0, 0xFF]),
            "load": rnd.choice(ADDRS) if rnd.random() < 0.6 else rnd.randrange(65536),
            "exec": rnd.choice(ADDRS) if rnd.random() < 0.6 else rnd.randrange(65536),
            "data": hexs(rdata(rnd, n))}


def to_coco(f, none_addr=False):
    return CoCoFile(name="".join(chr(c) for c in f["name"]), extension="".join(chr(c) for c in f["ext"]),
                    type=NumericValue(f["ftype"]), data_type=NumericValue(f["dtype"]), gaps=NumericValue(f.get("gaps", 0)),
                    load_addr=NumericValue(f["load"]), exec_addr=NumericValue(f["exec"]),
                    data=list(bytes.fromhex(f["data"])))


def of_coco(c):
    return {"name": [ord(ch) for ch in c.name], "ext": [ord(ch) for ch in c.extension], "ftype": c.type.int,
            "dtype": c.data_type.int, "gaps": c.gaps.int, "load": c.load_addr.int, "exec": c.exec_addr.int,
            "data": hexs(c.data)}


FIELDS = ("name", "ftype", "dtype", "load", "exec", "data")


def proj(f):
    """the observables C06 talks about"""
    return {k: f[k] for k in FIELDS}


def pad8(name):
    return (list(name)[:8] + [0x20] * 8)[:8]


def norm(f):
    g = proj(f)
    g["name"] = pad8(f["name"])
    return g


def impl_write(fs):
    def go():
        c = CassetteFile()
        c.add_files([to_coco(f) for f in fs])
        return list(c.get_buffer())
    return guarded(go, 20, diag=(VirtualFileValidationError,))


def impl_list(buf):
    def go():
        return [of_coco(c) for c in CassetteFile(buffer=list(buf)).list_files()]
    return guarded(go, 20, diag=(VirtualFileValidationError,))


def outcome_of_model(rep):
    k = rep.get("k")
    return "timeout" if k == "diverged" else k


def spec_tape(rnd, fs):
    """a well-formed tape written from the format description: random fillers, gaps, block sizes"""
    def fill():
        return [0] * rnd.choice([0, 0, 1, 7, 128, 300]) + [0x55] * rnd.choice([0, 1, 2, 128, 500])
    tape = []
    for f in fs:
        nm = pad8(f["name"])
        tape += fill() + frame(0, nm + [f["ftype"], f["dtype"], f["gaps"], f["load"] >> 8, f["load"] & 255,
                                        f["exec"] >> 8, f["exec"] & 255])
        d = list(bytes.fromhex(f["data"]))
        while d:
            k = rnd.choice([1, 2, 100, 254, 255, 255, 255])
            tape += fill() + frame(1, d[:k])
            d = d[k:]
        tape += fill() + frame(0xFF, [])
    tape += fill()
    return tape


def corrupt(rnd, buf):
    buf = list(buf)
    k = rnd.random()
    if not buf:
        return buf
    if k < 0.35:
        return buf[:rnd.randrange(len(buf))]
    if k < 0.7:
        for _ in range(rnd.choice([1, 1, 2, 5])):
            i = rnd.randrange(len(buf))
            buf[i] = rnd.choice([0x00, 0x55, 0x3C, 0x01, 0xFF, 0x80, 0xC3, rnd.randrange(256)])
        return buf
    if k < 0.85:
        # cut at a structurally interesting place: shortly after a sync pair
        idx = [i for i in range(len(buf) - 1) if buf[i] == 0x55 and buf[i + 1] == 0x3C]
        if idx:
            return buf[:rnd.choice(idx) + rnd.randrange(0, 24)]
        return buf[:rnd.randrange(len(buf))]
    i = rnd.randrange(len(buf))
    return buf[:i] + buf[i + rnd.randrange(1, 300):]


def files_known_E1(fs):
    """exclusion predicate K_C06_emptyData of Props/C06.lean: some file has no data"""
    return any(f["data"] == "" for f in fs)


def e1_prediction(fs):
    """what the model predicts for the listing when E1 strikes: the files before the first empty one"""
    out = []
    for f in fs:
        if f["data"] == "":
            break
        out.append(norm(f))
    return out


def run_streams(run, want, counts, lens, corpus=()):
    """
    want: set of stream names to run; counts: dict stream -> number of cases.
    Observables are compared only for the streams requested (each property subscribes to its own).
    """
    rnd = random.Random(run.seed * 7919 + 17)
    cases = []      # (stream, input-json, impl-outcome, request for the driver, context)

    gen_lists = []
    for item in corpus:
        gen_lists.append(item)
    nfiles = [0, 1, 1, 1, 2, 2, 3, 4]
    n_write = max(counts.get("cas.write", 0), counts.get("cas.rt", 0))
    for i in range(n_write):
        empty_ok = rnd.random() < 0.25
        gen_lists.append([gen_file(rnd, lens, allow_empty=empty_ok) for _ in range(rnd.choice(nfiles))])

    reqs = []
    ctx = []
    # ---- cas.write / cas.rt
    for fs in gen_lists:
        kind, buf = impl_write(fs)
        if "cas.write" in want:
            reqs.append({"op": "cas.write", "files": fs})
            ctx.append(("cas.write", fs, (kind, buf)))
            if kind == "ok":
                reqs.append({"op": "spec.tape", "buf": hexs(buf)})
                ctx.append(("oracle.tape", fs, buf))
        if "cas.rt" in want and kind == "ok":
            lk, lv = impl_list(buf)
            reqs.append({"op": "cas.list", "buf": hexs(buf)})
            ctx.append(("cas.rt", fs, (lk, lv)))
    # ---- cas.tape
    if "cas.tape" in want:
        for i in range(counts.get("cas.tape", 0)):
            fs = [gen_file(rnd, lens, allow_empty=(rnd.random() < 0.2)) for _ in range(rnd.choice(nfiles))]
            for f in fs:
                f["gaps"] = rnd.choice([0, 0xFF])
            tape = spec_tape(rnd, fs)
            lk, lv = impl_list(tape)
            reqs.append({"op": "cas.list", "buf": hexs(tape)})
            ctx.append(("cas.tape", fs, (lk, lv, tape)))
    # ---- cas.corrupt
    if "cas.corrupt" in want:
        for i in range(counts.get("cas.corrupt", 0)):
            fs = [gen_file(rnd, LENS_QUICK) for _ in range(rnd.choice([1, 1, 2]))]
            base = spec_tape(rnd, fs) if rnd.random() < 0.5 else impl_write(fs)[1]
            bad = corrupt(rnd, base)
            lk, lv = impl_list(bad)
            reqs.append({"op": "cas.list", "buf": hexs(bad)})
            ctx.append(("cas.corrupt", hexs(bad), (lk, lv)))

    for i, r in enumerate(reqs):
        r["id"] = i
    reps = drive(reqs)

    for (stream, inp, impl), rep in zip(ctx, reps):
        if stream == "cas.write":
            kind, buf = impl
            sizes = [len(f["data"]) // 2 for f in inp]
            run.case(stream, {"files": [dict(f, data="({} bytes)".format(len(f["data"]) // 2)) for f in inp]},
                     [kind, len(buf) if buf else 0], nontrivial=len(inp) > 0)
            for n in sizes:
                run.dist["cas.datalen." + ("0" if n == 0 else "1-254" if n < 255 else "255" if n == 255 else
                                           "k*255" if n % 255 == 0 else ">255")] += 1
            run.dist["cas.nfiles.{}".format(len(inp))] += 1
            if kind != "ok" or rep.get("k") != "ok" or hexs(buf) != rep.get("buf"):
                run.disagree(stream, {"files": inp}, [kind, hexs(buf)[:400] if buf else None],
                             [rep.get("k"), (rep.get("buf") or "")[:400]], "tape bytes of add_files differ")
        elif stream == "oracle.tape":
            buf = impl
            want_files = [dict(norm(f), gaps=0) for f in inp]
            got = None
            if rep.get("ok"):
                got = [{"name": t["name"], "ftype": t["ftype"], "dtype": t["dtype"], "gaps": t["gaps"],
                        "load": t["load"], "exec": t["exec"], "data": t["data"]} for t in rep["files"]]
            if got != want_files:
                run.violate("C14: image written is not a well-formed tape stream holding the files (strict parser, checksums verified)",
                            {"files": inp}, want_files if len(str(want_files)) < 3000 else "(norm of the input files)",
                            {"strict_parse": "rejected" if got is None else got if len(str(got)) < 3000 else "(different files)",
                             "buffer_hex_prefix": hexs(buf)[:600]})
        elif stream in ("cas.rt", "cas.tape"):
            lk, lv = impl[0], impl[1]
            mk = outcome_of_model(rep)
            run.case(stream, {"files": [dict(f, data="({} bytes)".format(len(f["data"]) // 2)) for f in inp]},
                     [lk, len(lv) if lv else 0], nontrivial=len(inp) > 0)
            impl_files = [proj(f) for f in lv] if lk == "ok" else None
            model_files = [proj(f) for f in rep["files"]] if mk == "ok" else None
            if lk != mk or impl_files != model_files:
                run.disagree(stream, {"files": inp} if stream == "cas.rt" else {"tape": hexs(impl[2])[:2000], "files": inp},
                             [lk, impl_files if len(str(impl_files)) < 2000 else "(large)"],
                             [mk, model_files if len(str(model_files)) < 2000 else "(large)"], "listing differs")
            expected = [norm(f) for f in inp]
            if not (lk == "ok" and impl_files == expected):
                known = None
                if files_known_E1(inp) and lk == "ok" and impl_files == e1_prediction(inp) and lk == mk and impl_files == model_files:
                    known = "E1"
                run.dist["cas.E1_region"] += 1 if files_known_E1(inp) else 0
                run.violate("C06: listing a {} does not return the files stored".format(
                    "tool-written image" if stream == "cas.rt" else "well-formed tape stream (spec-generated)"),
                    {"files": inp} if stream == "cas.rt" else {"files": inp, "tape": hexs(impl[2])[:4000]},
                    expected if len(str(expected)) < 3000 else "(norm of the input files)",
                    [lk, impl_files if len(str(impl_files)) < 3000 else "(different files)"], known_id=known)
        elif stream == "cas.corrupt":
            lk, lv = impl
            mk = outcome_of_model(rep)
            run.case(stream, {"bytes": inp if len(inp) < 600 else inp[:600] + "..."}, [lk], nontrivial=True)
            run.dist["cas.corrupt." + lk] += 1
            impl_files = [proj(f) for f in lv] if lk == "ok" else None
            model_files = [proj(f) for f in rep["files"]] if mk == "ok" else None
            if lk != mk or impl_files != model_files:
                run.disagree(stream, {"bytes": inp}, [lk, lv if lk != "ok" else "(files)"], [mk, None], "reader outcome on damaged stream differs")
