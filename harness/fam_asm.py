"""
harness/fam_asm.py — assembler streams (properties C01-C05, C12, C13, C17-C19; C11 uses the CLI family).

  asm.value  Value.create_from_str(s, flags)            vs model Asm.create      (class, int, hint, mode, sign, hex, hex_len)
  asm.prog   Program().process(lines) + listing columns + symbol table + image vs model Asm.assemble
Generators live in gen_asm.py; oracles (datasheet decoder, layout, displacement ...) in the property modules.
"""
import os
import tempfile

from common import drive, hexs, repo_import_path
from framework import guarded

repo_import_path()
from cocoasm.program import Program                     # noqa: E402
from cocoasm.exceptions import ParseError, TranslationError, ValueTypeError   # noqa: E402
from cocoasm.values import Value                        # noqa: E402


class _I:   # stand-in for the two instruction flags Value.create_from_str looks at
    def __init__(self, a, b):
        self.is_string_define = a
        self.is_16_bit = b


def show_value(v):
    t = v.type.name
    if t == "NUMERIC":
        return "NUMERIC int=%d hint=%s mode=%s neg=%s hex=%s hexlen=%d" % (
            v.int, v.size_hint, v.explict_addressing_mode.name, str(v.negative).lower(), v.hex(), v.hex_len())
    if t == "SYMBOL":
        return "SYMBOL name=%s mode=%s" % (v.value, v.explict_addressing_mode.name)
    if t == "EXPRESSION":
        return "EXPRESSION op=%s mode=%s addr=false L[%s] R[%s]" % (v.operation, v.explict_addressing_mode.name, show_value(v.left), show_value(v.right))
    if t == "LEFT_RIGHT":
        return "LEFT_RIGHT l=%s r=%s mode=%s" % (v.left, v.right, v.explict_addressing_mode.name)
    if t == "STRING":
        return "STRING %s" % v.original_string
    return "?" + t


def impl_value(s, is_str, is16, def_ext):
    def go():
        return show_value(Value.create_from_str(s, _I(is_str, is16), default_mode_extended=def_ext))
    k, v = guarded(go, 3, diag=())
    if k == "ok":
        return {"k": "ok", "v": v}
    return {"k": v if v == "ValueTypeError" else "other"}


def stmt_bytes(st):
    out = []
    for val in (st.code_pkg.op_code, st.code_pkg.post_byte, st.code_pkg.additional):
        h = val.hex()
        for index in range(0, val.hex_len(), 2):
            out.append(int("{}{}".format(h[index], h[index + 1]), 16))
    return out


def safe(fn):
    try:
        return fn()
    except Exception:       # noqa
        return None


def impl_prog(lines, files=None, timeout=3):
    """assemble in-process; INCLUDE files are written to a temp working directory"""
    cwd = os.getcwd()
    tmp = None
    try:
        if files:
            tmp = tempfile.mkdtemp(prefix="cocoverif-inc-")
            for name, ls in files.items():
                if os.path.dirname(name):
                    os.makedirs(os.path.join(tmp, os.path.dirname(name)), exist_ok=True)
                with open(os.path.join(tmp, name), "w") as fh:
                    fh.write("".join(ls))
            os.chdir(tmp)
        p = Program()
        src = list(lines)
        kind, val = guarded(lambda: p.process(src), timeout, diag=(ParseError, TranslationError))
        if kind != "ok":
            return {"k": kind, "exc": val, "src_unchanged": src == list(lines)}
        stmts = []
        for st in p.statements:
            stmts.append({
                "addr": safe(lambda: st.code_pkg.address.hex(size=4)),
                "hex": safe(lambda: st.code_pkg.op_code.hex() + st.code_pkg.post_byte.hex() + st.code_pkg.additional.hex()),
                "size": st.code_pkg.size,
                "bytes": safe(lambda: hexs(stmt_bytes(st))),
                "label": st.label, "mn": st.mnemonic,
                "opnd": safe(lambda: st.original_operand.operand_string), "comment": st.comment,
            })
        return {"k": "ok", "stmts": stmts,
                "symtab": [[k, safe(lambda: v.hex())] for k, v in p.symbol_table.items()],
                "origin": safe(lambda: p.origin.hex()), "originInt": safe(lambda: p.origin.int), "name": p.name,
                "image": safe(lambda: hexs(p.get_binary_array())), "src_unchanged": src == list(lines),
                "listing": [safe(lambda: str(st)) for st in p.statements], "symlines": safe(lambda: p.get_symbol_table())}
    finally:
        os.chdir(cwd)
        if tmp:
            import shutil
            shutil.rmtree(tmp, ignore_errors=True)


PROG_KEYS = ("stmts", "symtab", "origin", "originInt", "name", "image", "listing", "symlines")


def model_prog_canon(rep):
    k = rep.get("k")
    if k == "diverged":
        return {"k": "timeout"}
    if k != "ok":
        return {"k": k}
    return dict({"k": "ok"}, **{x: rep.get(x) for x in PROG_KEYS})


def impl_prog_canon(r):
    if r["k"] != "ok":
        return {"k": r["k"]}
    return dict({"k": "ok"}, **{x: r.get(x) for x in PROG_KEYS})


def compare_progs(run, stream, cases, project=None):
    """cases: list of dict(lines=[...], files={...} or None, tag=...). Returns list of (case, impl, model)."""
    reqs = []
    impls = []
    for i, c in enumerate(cases):
        impls.append(impl_prog(c["lines"], c.get("files")))
        r = {"op": "asm.prog", "id": i, "lines": c["lines"]}
        if c.get("files"):
            r["files"] = c["files"]
        reqs.append(r)
    reps = drive(reqs)
    out = []
    for c, im, rep in zip(cases, impls, reps):
        a = impl_prog_canon(im)
        b = model_prog_canon(rep)
        if project:
            a, b = project(a), project(b)
        if a != b:
            what = "outcome kind" if a.get("k") != b.get("k") else ",".join(k for k in a if a.get(k) != b.get(k))
            run.disagree(stream, {"lines": c["lines"], "files": c.get("files")}, a if len(str(a)) < 3000 else {"k": a.get("k"), "note": "large"},
                         b if len(str(b)) < 3000 else {"k": b.get("k"), "note": "large"}, "assembly differs: " + what)
        out.append((c, im, rep))
    return out


# ------------------------------------------------------------------ asm.value: the string-level cascade on its own

VALUE_ALPHA = "019AFGXa$#<>%',+-*/@_[] ;"


def value_cases(rnd, n_random, exhaustive_len):
    """every string over VALUE_ALPHA up to `exhaustive_len` characters, plus structured random values (numbers in every spelling,
    symbols, two-term expressions, left,right pairs, delimited strings and near misses of each)"""
    import itertools
    out = []
    for k in range(0, exhaustive_len + 1):
        for t in itertools.product(VALUE_ALPHA, repeat=k):
            out.append("".join(t))
    atoms = ["0", "1", "9", "10", "255", "256", "65535", "65536", "99999", "-1", "-128", "-129", "-32768", "-32769", "$0", "$F", "$FF", "$100", "$0100",
             "$FFFF", "$10000", "$G", "%1", "%01010101", "%0101010101010101", "%2", "%010101011", "'A", "'", "'AB", "A", "AB", "A_B", "@A", "A@", "_", "9A",
             "A9", "a", "X", "PCR", "", " ", "A B"]
    for _ in range(n_random):
        k = rnd.randrange(8)
        a, b = rnd.choice(atoms), rnd.choice(atoms)
        if k == 0:
            s = a
        elif k == 1:
            s = rnd.choice("#<>") + a
        elif k == 2:
            s = a + rnd.choice("+-*/") + b
        elif k == 3:
            s = rnd.choice(["#", "<", ">", ""]) + a + rnd.choice("+-*/") + b
        elif k == 4:
            s = a + "," + b
        elif k == 5:
            d = rnd.choice("\"'/")
            s = d + a + b + rnd.choice([d, "", d + d])
        elif k == 6:
            s = a + rnd.choice("+-*/,") + b + rnd.choice("+-*/,") + a
        else:
            s = "".join(rnd.choice(VALUE_ALPHA) for _ in range(rnd.randrange(1, 9)))
        out.append(s)
    return out


def run_values(run, rnd, n_random, exhaustive_len, stream="asm.value"):
    """Value.create_from_str vs Asm.create on the same strings under the four flag combinations that occur"""
    cases = value_cases(rnd, n_random, exhaustive_len)
    reqs, impls = [], []
    for s in cases:
        for is_str, is16, def_ext in ((False, False, True), (False, True, True), (False, False, False), (True, False, True)):
            if (is_str or not def_ext or is16) and len(s) <= exhaustive_len and rnd.random() < 0.5:
                continue
            impls.append(impl_value(s, is_str, is16, def_ext))
            reqs.append({"op": "asm.value", "id": len(reqs), "s": s, "isStr": is_str, "is16": is16, "defExt": def_ext})
    reps = drive(reqs)
    for rq, im, rep in zip(reqs, impls, reps):
        mo = {"k": rep.get("k")}
        if rep.get("k") == "ok":
            mo["v"] = rep.get("v")
        a = dict(im)
        if a.get("k") == "ok" and a["v"].startswith("NUMERIC"):
            a["v"] = a["v"].replace("neg=true", "neg=true").replace("neg=false", "neg=false")
        run.case(stream, {"s": rq["s"], "flags": [rq["isStr"], rq["is16"], rq["defExt"]]}, [a.get("k"), (a.get("v") or "")[:12]], nontrivial=True, sample_every=4999)
        run.dist["value." + str(a.get("k")) + "." + ((a.get("v") or "").split(" ")[0])] += 1
        if a != mo:
            run.disagree(stream, {"s": rq["s"], "isStr": rq["isStr"], "is16": rq["is16"], "defExt": rq["defExt"]}, a, mo, "create_from_str differs")
