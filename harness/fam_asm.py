"""
harness/fam_asm.py — assembler streams (properties C01-C05, C12, C13, C17-C19; C11 uses the CLI family).

  asm.value  Value.create_from_str(s, flags)            vs model Asm.create      (class, int, hint, mode, sign, hex, hex_len)
  asm.prog   Program().process(lines) + listing columns + symbol table + image vs model Asm.assemble
Generators live in gen_asm.py; oracles (datasheet decoder, layout, displacement ...) in the property modules.
"""
import os
import tempfile

from common import drive, hexs, repo_import_path
from framework import guarded

repo_import_path()
from cocoasm.program import Program                     # noqa: E402
from cocoasm.exceptions import ParseError, TranslationError, ValueTypeError   # noqa: E402
from cocoasm.values import Value                        # noqa: E402


class _I:   # stand-in for the two instruction flags Value.create_from_str looks at
    def __init__(self, a, b):
        self.is_string_define = a
        self.is_16_bit = b


def show_value(v):
    t = v.type.name
    if t == "NUMERIC":
        return "NUMERIC int=%d hint=%s mode=%s neg=%s hex=%s hexlen=%d" % (
            v.int, v.size_hint, v.explict_addressing_mode.name, str(v.negative).lower(), v.hex(), v.hex_len())
    if t == "SYMBOL":
        return "SYMBOL name=%s mode=%s" % (v.value, v.explict_addressing_mode.name)
    if t == "EXPRESSION":
        return "EXPRESSION op=%s mode=%s addr=false L[%s] R[%s]" % (v.operation, v.explict_addressing_mode.name, show_value(v.left), show_value(v.right))
    if t == "LEFT_RIGHT":
        return "LEFT_RIGHT l=%s r=%s mode=%s" % (v.left, v.right, v.explict_addressing_mode.name)
    if t == "STRING":
        return "STRING %s" % v.original_string
    return "?" + t


def impl_value(s, is_str, is16, def_ext):
    def go():
        return show_value(Value.create_from_str(s, _I(is_str, is16), default_mode_extended=def_ext))
    k, v = guarded(go, 3, diag=())
    if k == "ok":
        return {"k": "ok", "v": v}
    return {"k": v if v == "ValueTypeError" else "other"}


def stmt_bytes(st):
    out = []
    for val in (st.code_pkg.op_code, st.code_pkg.post_byte, st.code_pkg.additional):
        h = val.hex()
        for index in range(0, val.hex_len(), 2):
            out.append(int("{}{}".format(h[index], h[index + 1]), 16))
    return out


def safe(fn):
    try:
        return fn()
    except Exception:       # noqa
        return None


def impl_prog(lines, files=None, timeout=3):
    """assemble in-process; INCLUDE files are written to a temp working directory"""
    cwd = os.getcwd()
    tmp = None
    try:
        if files:
            tmp = tempfile.mkdtemp(prefix="cocoverif-inc-")
            for name, ls in files.items():
                with open(os.path.join(tmp, name), "w") as fh:
                    fh.write("".join(ls))
            os.chdir(tmp)
        p = Program()
        src = list(lines)
        kind, val = guarded(lambda: p.process(src), timeout, diag=(ParseError, TranslationError))
        if kind != "ok":
            return {"k": kind, "exc": val, "src_unchanged": src == list(lines)}
        stmts = []
        for st in p.statements:
            stmts.append({
                "addr": safe(lambda: st.code_pkg.address.hex(size=4)),
                "hex": safe(lambda: st.code_pkg.op_code.hex() + st.code_pkg.post_byte.hex() + st.code_pkg.additional.hex()),
                "size": st.code_pkg.size,
                "bytes": safe(lambda: hexs(stmt_bytes(st))),
                "label": st.label, "mn": st.mnemonic,
                "opnd": safe(lambda: st.original_operand.operand_string), "comment": st.comment,
            })
        return {"k": "ok", "stmts": stmts,
                "symtab": [[k, safe(lambda: v.hex())] for k, v in p.symbol_table.items()],
                "origin": safe(lambda: p.origin.hex()), "originInt": safe(lambda: p.origin.int), "name": p.name,
                "image": safe(lambda: hexs(p.get_binary_array())), "src_unchanged": src == list(lines),
                "listing": [safe(lambda: str(st)) for st in p.statements], "symlines": safe(lambda: p.get_symbol_table())}
    finally:
        os.chdir(cwd)
        if tmp:
            for f in os.listdir(tmp):
                os.unlink(os.path.join(tmp, f))
            os.rmdir(tmp)


PROG_KEYS = ("stmts", "symtab", "origin", "originInt", "name", "image", "listing", "symlines")


def model_prog_canon(rep):
    k = rep.get("k")
    if k == "diverged":
        return {"k": "timeout"}
    if k != "ok":
        return {"k": k}
    return dict({"k": "ok"}, **{x: rep.get(x) for x in PROG_KEYS})


def impl_prog_canon(r):
    if r["k"] != "ok":
        return {"k": r["k"]}
    return dict({"k": "ok"}, **{x: r.get(x) for x in PROG_KEYS})


def compare_progs(run, stream, cases, project=None):
    """cases: list of dict(lines=[...], files={...} or None, tag=...). Returns list of (case, impl, model)."""
    reqs = []
    impls = []
    for i, c in enumerate(cases):
        impls.append(impl_prog(c["lines"], c.get("files")))
        r = {"op": "asm.prog", "id": i, "lines": c["lines"]}
        if c.get("files"):
            r["files"] = c["files"]
        reqs.append(r)
    reps = drive(reqs)
    out = []
    for c, im, rep in zip(cases, impls, reps):
        a = impl_prog_canon(im)
        b = model_prog_canon(rep)
        if project:
            a, b = project(a), project(b)
        if a != b:
            what = "outcome kind" if a.get("k") != b.get("k") else ",".join(k for k in a if a.get(k) != b.get(k))
            run.disagree(stream, {"lines": c["lines"], "files": c.get("files")}, a if len(str(a)) < 3000 else {"k": a.get("k"), "note": "large"},
                         b if len(str(b)) < 3000 else {"k": b.get("k"), "note": "large"}, "assembly differs: " + what)
        out.append((c, im, rep))
    return out
