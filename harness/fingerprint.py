#!/venv/bin/python
"""
harness/fingerprint.py — a static tie between the hand-written Lean model and the Python text it was validated against.

For every function and method of the modelled modules (cocoasm/*.py, cocoasm/virtualfiles/*.py, assembler.py,
file_util.py) a digest of its source (AST dump: comments and layout do not count) is kept in
harness/fingerprints.json, taken when the model was last validated against the code (after the last `fix:` commit).
On every check run the digests are recomputed from /repo's working tree:

  * nothing changed  -> the quick tier runs as registered;
  * something changed -> the evidence names the changed functions (these are the parts of the model whose
    correspondence is in question) and the check spends more effort where it matters: the streams of the property are
    run again under further seeds (VERIF_CHANGED_REPEATS, default 3) so that a change that needs a rare input has a
    better chance of being exposed.  The verdict rule is unchanged: a violation still needs a failing input (or a broken
    obligation / correspondence).

`python3 harness/fingerprint.py --update` rewrites the snapshot (done together with every model update).
"""
import ast
import hashlib
import json
import os
import sys

HERE = os.path.dirname(os.path.abspath(__file__))
REPO = os.environ.get("COCO_REPO", "/repo")
SNAPSHOT = os.path.join(HERE, "fingerprints.json")

FILES = ["assembler.py", "file_util.py", "cocoasm/exceptions.py", "cocoasm/instruction.py", "cocoasm/operand_type.py", "cocoasm/operands.py",
         "cocoasm/program.py", "cocoasm/virtualfiles/source_file.py", "cocoasm/virtualfiles/binary.py", "cocoasm/statement.py", "cocoasm/values.py",
         "cocoasm/virtualfiles/cassette.py",
         "cocoasm/virtualfiles/coco_file.py", "cocoasm/virtualfiles/disk.py", "cocoasm/virtualfiles/virtual_file.py",
         "cocoasm/virtualfiles/virtual_file_container.py", "cocoasm/virtualfiles/virtual_file_exceptions.py"]

# which source files the model parts behind each property were validated against
ASM = ["cocoasm/instruction.py", "cocoasm/operands.py", "cocoasm/program.py", "cocoasm/statement.py", "cocoasm/values.py", "cocoasm/exceptions.py",
       "cocoasm/operand_type.py", "cocoasm/virtualfiles/source_file.py"]
CAS = ["cocoasm/virtualfiles/cassette.py", "cocoasm/virtualfiles/coco_file.py", "cocoasm/virtualfiles/virtual_file_container.py",
       "cocoasm/virtualfiles/virtual_file_exceptions.py", "cocoasm/values.py"]
DSK = ["cocoasm/virtualfiles/disk.py", "cocoasm/virtualfiles/coco_file.py", "cocoasm/virtualfiles/virtual_file_container.py",
       "cocoasm/virtualfiles/virtual_file_exceptions.py", "cocoasm/values.py"]
VF = ["cocoasm/virtualfiles/virtual_file.py", "cocoasm/virtualfiles/binary.py"]
RELEVANT = {
    "C01": ASM, "C02": ASM, "C03": ASM, "C04": ASM, "C05": ASM, "C12": ASM, "C13": ASM + ["assembler.py"] + VF + CAS + DSK, "C17": ASM, "C18": ASM,
    "C19": ASM, "C06": CAS, "C14": CAS, "C07": DSK, "C08": DSK, "C15": DSK, "C09": CAS + DSK + VF,
    "C10": CAS + DSK + VF + ["assembler.py", "file_util.py"], "C11": ASM + CAS + DSK + VF + ["assembler.py"],
    "C16": CAS + DSK + VF + ["file_util.py"],
}


def _digest(node):
    return hashlib.sha256(_text(node).encode()).hexdigest()[:16]


def _text(node):
    """normalised source text (comments and layout do not count; stable across Python versions, unlike ast.dump)"""
    return ast.unparse(node)


def current():
    """{ "path::Class.func": digest } for the working tree; a file that does not parse gets one entry with digest 'unparsable'"""
    out = {}
    for rel in FILES:
        path = os.path.join(REPO, rel)
        try:
            with open(path) as fh:
                tree = ast.parse(fh.read())
        except FileNotFoundError:
            out[rel + "::<file>"] = "missing"
            continue
        except SyntaxError:
            out[rel + "::<file>"] = "unparsable"
            continue
        top = []
        for node in tree.body:
            if isinstance(node, (ast.FunctionDef, ast.AsyncFunctionDef)):
                out["{}::{}".format(rel, node.name)] = _digest(node)
            elif isinstance(node, ast.ClassDef):
                rest = []
                for sub in node.body:
                    if isinstance(sub, (ast.FunctionDef, ast.AsyncFunctionDef)):
                        out["{}::{}.{}".format(rel, node.name, sub.name)] = _digest(sub)
                    else:
                        rest.append(sub)
                out["{}::{}.<class body>".format(rel, node.name)] = hashlib.sha256(
                    ("|".join(_text(x) for x in rest) + "|" + "|".join(_text(b) for b in node.bases)).encode()).hexdigest()[:16]
            else:
                top.append(node)
        out[rel + "::<module level>"] = hashlib.sha256("|".join(_text(x) for x in top).encode()).hexdigest()[:16]
    return out


def snapshot():
    try:
        with open(SNAPSHOT) as fh:
            return json.load(fh)
    except (OSError, ValueError):
        return {}


def changed(prop=None):
    """sorted list of the functions whose text differs from the snapshot (restricted to the files relevant to `prop`)"""
    old, new = snapshot().get("functions", {}), current()
    keys = set(old) | set(new)
    rel = None if prop is None else set(RELEVANT.get(prop, FILES))
    out = []
    for k in sorted(keys):
        if rel is not None and k.split("::")[0] not in rel:
            continue
        if old.get(k) != new.get(k):
            out.append(k + (" (new)" if k not in old else " (removed)" if k not in new else ""))
    return out


def main():
    if "--update" in sys.argv:
        import subprocess
        head = subprocess.run(["git", "-C", REPO, "rev-parse", "--short", "HEAD"], capture_output=True, text=True).stdout.strip()
        with open(SNAPSHOT, "w") as fh:
            json.dump({"repo_head": head, "functions": current()}, fh, indent=0, sort_keys=True)
        print("snapshot of {} functions at {}".format(len(current()), head))
        return 0
    ch = changed()
    print("\n".join(ch) if ch else "no modelled function differs from the snapshot")
    return 0


if __name__ == "__main__":
    sys.exit(main())
