"""
harness/registry.py — per property: claimed level, Lean modules and theorems, rule text.
The theorems listed here are the proof obligations of the property; each is audited with
`#print axioms` on every run.
"""
P = "CoCo.Props."

REGISTRY = {
    "C06": {
        "level": "proof",
        "family": "cas",
        "modules": ["CoCoVerif.Props.C06"],
        "theorems": [P + "C06_partial", P + "C06_reader_partial", P + "C06_roundtrip_partial",
                     P + "C06_finding_E1", P + "C06_Statement_false", P + "C14_full"],
        "rule": "cases = seeded lists of 0..4 files (names 0..12 printable ASCII, data lengths at the 255-block boundaries and random, "
                "marker-rich content, corner addresses) written by the tool and listed back (cas.rt), well-formed tapes generated from the "
                "format description with random fillers/gaps/block sizes (cas.tape), damaged streams (cas.corrupt); a case is non-trivial if it "
                "holds at least one file (or is a damaged stream); distinct = distinct (stream, canonical input, outcome) digest",
        "assumptions": ["names are ASCII; types/data types are bytes; addresses are 0..65535 (the reader UTF-8-decodes names)",
                        "known finding E1 (files with empty data) is excluded by K_C06_emptyData and listed in known_findings.json"],
    },
    "C14": {
        "level": "proof",
        "family": "cas",
        "modules": ["CoCoVerif.Props.C14"],
        "theorems": [P + "C14_full"],
        "rule": "cases = seeded lists of 0..4 files as for C06; compared: the raw tape bytes of add_files (model vs implementation) and the "
                "strict checksum-verifying parser Spec.Tape.parse run on the implementation's buffer; non-trivial = at least one file; "
                "distinct = distinct (canonical input, outcome) digest",
        "assumptions": ["name characters, types and data bytes are < 256; addresses are 0..65535"],
    },
}

NOT_BUILT = "check not built yet at this commit (work in progress; see DESIGN.md section 9 for the order of work)"
NOT_APPLICABLE = {("C%02d" % i): NOT_BUILT for i in range(1, 20)}

MANIFEST_TEXT = {
    "C06": {
        "text": "Lean theorems C06_roundtrip_partial (list(write fs) = norm fs for every file list, every data length and content) and "
                "C06_reader_partial (the scanning reader returns exactly the files of ANY well-formed tape stream: arbitrary gap/leader "
                "lengths, gaps between data blocks, payloads containing the block markers), by induction over the tape grammar; the only "
                "exclusion is files with empty data (known finding E1, itself a kernel-checked theorem C06_finding_E1). The model is tied "
                "to cassette.py on every run by differential execution (tool-written images, spec-generated tapes, damaged streams).",
        "design_ref": "DESIGN.md section 5 C06, section 6 E",
        "note": "assumes ASCII names and byte-sized fields; trusted: Spec/Tape.lean, Lean kernel, the sampled correspondence (model = code only on inputs compared)",
        "technique": "Lean 4 proof by induction over the tape grammar (model of cassette.py) + differential correspondence + strict-parser oracle",
    },
    "C14": {
        "text": "Lean theorem C14_full: for EVERY list of files the bytes written are a well-formed tape stream (Spec.Tape.WellFormed: per file "
                "filler, 15-byte name-file block, data blocks of 1..255 bytes concatenating to the data, EOF block; every block framed with "
                "length and checksum (type+len+sum) mod 256) and consist of bytes; no exclusions. Tie: raw tape bytes of add_files compared "
                "with the model on every run, and the strict checksum-verifying parser run on the implementation's buffers.",
        "design_ref": "DESIGN.md section 5 C14",
        "note": "trusted: Spec/Tape.lean (WellFormed, parse), Lean kernel, sampled correspondence of Cas.write with CassetteFile.add_files",
        "technique": "Lean 4 constructive proof of the tape-grammar decomposition + differential correspondence on raw bytes + strict-parser oracle",
    },
}
