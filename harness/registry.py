"""
harness/registry.py — per property: claimed level, Lean modules and theorems, rule text.
The theorems listed here are the proof obligations of the property; each is audited with
`#print axioms` on every run.
"""
import json as _json
import os as _os

P = "CoCo.Props."
with open(_os.path.join(_os.path.dirname(_os.path.abspath(__file__)), "theorems_asm.json")) as _fh:
    _T = _json.load(_fh)

REGISTRY = {
    "C02": {
        "level": "proof",
        "modules": ["CoCoVerif.Props.C02", "CoCoVerif.Props.C02Size", "CoCoVerif.Props.C02Full", "CoCoVerif.Props.C02C03Final"], "theorems": _T["C02"],
        "rule": "cases = directed layout programs (ORG first / later / code before ORG, duplicate and undefined symbols, origins below $100), random "
                "grammar-directed programs, README mutations, EQU/label matrix; on every accepted program the implementation's listing is re-checked: "
                "image = concatenation, address(i+1) = address(i) + bytes(i), label value = listing address",
        "assumptions": [],
    },
    "C03": {
        "level": "proof",
        "modules": ["CoCoVerif.Props.C03", "CoCoVerif.Props.C03Width", "CoCoVerif.Props.C03Full", "CoCoVerif.Props.C02C03Final"], "theorems": _T["C03"],
        "rule": "cases = all short/long branch mnemonics and label,PCR / [label,PCR] operands (1- and 2-byte opcodes) at distances around the 8-bit and 16-bit "
                "limits forward and backward, label+-k forms, programs with several interdependent PCR statements, random programs; every branch / PCR "
                "statement is decoded and (next address + displacement) mod 65536 compared with the target",
        "assumptions": [],
    },
    "C13": {
        "level": "proof",
        "modules": ["CoCoVerif.Props.C13"], "theorems": _T["C13"],
        "rule": "cases = README mutations, random lines over the source alphabet, random programs, interdependent PCR stress programs at every distance "
                "118..131, INCLUDE trees incl. missing files and cycles, data directives; outcome must be ok or diag within a 3 s watchdog; a sample is "
                "run through assembler.main with output switches: a diagnostic must give a non-zero exit and leave every output file untouched",
        "assumptions": [],
    },
    "C17": {
        "level": "translation_validation",
        "modules": ["CoCoVerif.Props.C17"],
        "theorems": _T["C17"],
        "rule": "programs = random accepted and rejected programs P, each assembled (a) alone, (b) after a random history Q1..Qk of accepted and rejected "
                "programs in the same interpreter, (c) again; the three results (image, listing columns, symbol table in order) must be equal and "
                "equal to the history-free Lean model; the source list is compared before/after; a sample of P is also assembled in fresh processes "
                "under different PYTHONHASHSEED values and compared with the warm result",
        "assumptions": ["what is validated is the absence of carried state on the histories tried; Python object aliasing cannot be expressed in a theorem about a pure model"],
    },
    "C18": {
        "level": "proof",
        "modules": ["CoCoVerif.Props.C18", "CoCoVerif.Props.C18Reloc", "CoCoVerif.Props.C18RelocSrc", "CoCoVerif.Props.C18RelocText",
                    "CoCoVerif.Props.C18Rename", "CoCoVerif.Props.C18RenameFull", "CoCoVerif.Props.C18RelocLists", "CoCoVerif.Props.C18RelocListsProg"],
        "theorems": _T["C18"],
        "rule": "cases = generated programs (ORG first, origin >= $100, label references label / label+-n, branches, PCR, data) each assembled in five "
                "variants: base, origin shifted by D, labels renamed by a bijection, reformatted (white space, comments, mnemonic case), extended by a "
                "suffix; the implementation's outputs are compared with each other (metamorphic oracle: bytes equal except absolute own-label references "
                "which move by exactly D; renamed symbols; unchanged prefix) and each variant with the model",
        "assumptions": ["R2 (renaming) is proved up to operand resolution only and otherwise validated by the metamorphic oracle and the correspondence; "
                        "R1, R3 and R4 are theorems (R1 for origins >= $100, no label*k / label/k, no label-label under PCR)"],
    },
    "C19": {
        "level": "proof",
        "modules": ["CoCoVerif.Props.C19"],
        "theorems": _T["C19"],
        "rule": "cases = random programs split at statement boundaries into an including file and 1..3 included files nested to depth 3 (written to a temp "
                "working directory for the implementation), compared with the textually spliced program (implementation vs implementation, and each vs the "
                "model); missing file and inclusion cycles",
        "assumptions": ["include paths are relative to the working directory; the model's file system is a finite map name -> lines"],
    },
    "C09": {
        "level": "proof",
        "modules": ["CoCoVerif.Props.C09"],
        "theorems": _T["C09"],
        "rule": "cases = sniffing of tool-written cassettes (small and >= 161,280 bytes with different contents at the disk directory offsets, incl. a "
                "well-formed tape with a long zero gap), tool-written disks, raw binaries, arbitrary bytes, empty files, damaged variants (vf.sniff); "
                "histories of add / save / re-open on a real temp file through VirtualFile for both container kinds with boundary lengths (vf.hist), "
                "after which the implementation's reader must list every stored file, unchanged, in order",
        "assumptions": ["host file system = path -> bytes with atomic writes (abstract in the model, real temp files in the harness)"],
    },
    "C10": {
        "level": "proof",
        "modules": ["CoCoVerif.Props.C10"],
        "theorems": _T["C10"],
        "rule": "cases = the full matrix {--to_bin, --to_cas, --to_dsk} x {append, no append} x pre-existing target {absent, empty, cassette, disk, raw binary, "
                "arbitrary bytes, cassette >= 161,280 bytes (text content / zero gap over the directory offsets)} through assembler.main on real temp "
                "files (every 9th cell as a real subprocess), combined switches, plus file_util conversions onto pre-existing targets; before/after "
                "bytes of every target are classified by the tape and Disk BASIC specifications and compared with the model's file system",
        "assumptions": ["open(path, 'wb')/write are not atomic: a crash or ENOSPC between truncate and write loses the old content; os.path.exists races; "
                        "neither is expressible in the model (named remainder, not claimed)"],
    },
    "C11": {
        "level": "proof",
        "modules": ["CoCoVerif.Props.C11", "CoCoVerif.Props.C11Full"],
        "theorems": _T["C11"],
        "rule": "cases = the assembler command line matrix of C10 restricted to what gets written: raw binary = image byte for byte; cassette / disk image "
                "parsed by the reference readers: last file = (image, load = exec = origin, name = NAM or --name padded/truncated to 8, case-insensitive, "
                "machine language type); earlier files of an appended-to image still there in order; no name => no cassette/disk file",
        "assumptions": ["entry address = origin (the tool never uses the END operand: not part of what is claimed)"],
    },
    "C16": {
        "level": "proof",
        "modules": ["CoCoVerif.Props.C16"],
        "theorems": _T["C16"],
        "rule": "cases = file_util.main on tool-written cassette and disk images (1..4 files, names letters/digits in either case, boundary lengths) with "
                "--to_cas / --to_dsk / --to_bin, every kind of --files selection in upper/lower/mixed case incl. unknown names, and chains "
                "cas->dsk->cas / dsk->cas->dsk; the target is parsed by the reference readers and compared with the selected source files",
        "assumptions": ["files other than machine language carry no addresses; names letters/digits (no blanks)"],
    },
    "C01": {
        "level": "proof",
        "modules": ["CoCoVerif.Props.C01", "CoCoVerif.Props.C01Text", "CoCoVerif.Props.C01TextSym"],
        "theorems": _T["C01"],
        "rule": "cases = the statement matrix (every non-pseudo mnemonic x every operand form of the README grammar x 18 boundary values x every literal "
                "spelling; 73,055 statements, sampled at 6% in the quick tier, complete in the thorough tier) + all TFR/EXG register pairs and PSH/PUL "
                "register lists (712) + EQU constants and labels in every operand position (5,624, sampled 25% in quick); each is assembled by the "
                "implementation, its bytes decoded by the Lean datasheet decoder and compared with the meaning of the source form; distinct = "
                "distinct (source, outcome) digest",
        "assumptions": ["direct page assumed $00 (SETDP is ignored by the tool: part of finding A12/A11)", "ASCII source text"],
    },
    "C12": {
        "level": "proof",
        "modules": ["CoCoVerif.Props.C12Full", "CoCoVerif.Props.C12", "CoCoVerif.Props.C01"],
        "theorems": _T["C12"] + [P + "C01_partial", P + "table_matches_datasheet"],
        "rule": "cases = the C01 matrix (out-of-range values, wrong registers, wrong modes are part of it) + random programs, README mutations and a "
                "pool of tricky operand strings for every 7th mnemonic (all in thorough); every ACCEPTED instruction statement is decoded: one "
                "complete instruction of that mnemonic, all bytes consumed, byte count = listed size",
        "assumptions": ["ASCII source text"],
    },
    "C04": {
        "level": "proof",
        "modules": ["CoCoVerif.Props.C04"],
        "theorems": _T["C04"],
        "rule": "cases = {number, EQU symbol} op {number, EQU symbol} for + - * / over boundary values in every operand position (immediate, memory, "
                "[..], index offset, PCR, FDB, FCB, EQU) (5,120; 30% sample in quick) + label+-k expressions with the label before and after use; "
                "the value decoded at the position must equal the arithmetic value mod 65536 (or the statement is rejected when it does not fit / "
                "divides by zero)",
        "assumptions": ["ASCII source text"],
    },
    "C05": {
        "level": "proof",
        "modules": ["CoCoVerif.Props.C05"],
        "theorems": _T["C05"],
        "rule": "cases = FCB/FDB single values and lists (1..64 elements; every spelling, negatives, out-of-width, symbols), RMB counts, FCC strings of "
                "printable ASCII with every delimiter choice, runs of spaces, ';', trailing comments, and the directives that must emit nothing; "
                "bytes compared with the directive's specification",
        "assumptions": ["ASCII source text"],
    },
    "C06": {
        "level": "proof",
        "family": "cas",
        "modules": ["CoCoVerif.Props.C06"],
        "theorems": [P + "C06_partial", P + "C06_reader_partial", P + "C06_roundtrip_partial",
                     P + "C06_finding_E1", P + "C06_Statement_false", P + "C14_full"],
        "rule": "cases = seeded lists of 0..4 files (names 0..12 printable ASCII, data lengths at the 255-block boundaries and random, "
                "marker-rich content, corner addresses) written by the tool and listed back (cas.rt), well-formed tapes generated from the "
                "format description with random fillers/gaps/block sizes (cas.tape), damaged streams (cas.corrupt); a case is non-trivial if it "
                "holds at least one file (or is a damaged stream); distinct = distinct (stream, canonical input, outcome) digest",
        "assumptions": ["names are ASCII; types/data types are bytes; addresses are 0..65535 (the reader UTF-8-decodes names)",
                        "known finding E1 (files with empty data) is excluded by K_C06_emptyData and listed in known_findings.json"],
    },
    "C07": {
        "level": "proof",
        "family": "dsk",
        "modules": ["CoCoVerif.Props.C07", "CoCoVerif.Props.C08"],
        "theorems": [P + "C07_full", P + "C07_reader_full", P + "C07_partial", P + "C07_write_list", P + "C07_reader_partial", P + "C07_finding_zeroSector_fixed", P + "C08_full"],
        "rule": "cases = seeded histories of 1..5 files (ML / BASIC / ASCII, names 1..12 letters/digits either case, lengths within 12 bytes of "
                "multiples of 2304 and 256 and random, arbitrary content) under the default, ascending, descending and shuffled fill orders, "
                "written and listed back (dsk.rt); well-formed fragmented images built from the format description with random disjoint chains and "
                "slots (dsk.frag); damaged images (dsk.corrupt); a length sweep (dsk.sweep) in the thorough tier; distinct = distinct (stream, input, outcome) digest",
        "assumptions": ["names/extensions are ASCII; files other than machine language carry no load/exec address (the format has no field for them)",
                        ],
    },
    "C08": {
        "level": "proof",
        "family": "dsk",
        "modules": ["CoCoVerif.Props.C08"],
        "theorems": [P + "C08_full"],
        "rule": "cases = seeded histories as for C07 plus fill-to-exhaustion histories; compared: whole-image hash, FAT sector and directory of the image "
                "written (model vs implementation); oracle: Spec.DiskBasic.Fsck and the reference reader run on the implementation's image; "
                "exhaustive: calculate_* over all 65,536 lengths x 3 kinds and seek_granule over all 68 granules",
        "assumptions": ["fill order entries are granule numbers (< 68); names ASCII; data length <= 65535"],
    },
    "C15": {
        "level": "proof",
        "family": "dsk",
        "modules": ["CoCoVerif.Props.C15", "CoCoVerif.Props.C08", "CoCoVerif.Props.C15Host"],
        "theorems": [P + "C15_full", P + "C08_full", P + "write_disk_full", P + "write_disk_full_iff", P + "write_disk_full_point", P + "storeTo_disk_full",
                     P + "storeTo_disk_full_host", P + "storeTo_disk_full_written", P + "storeTo_frame", P + "asmMain_disk_full", P + "utilMain_disk_full",
                     P + "utilMain_disk_full_after_cas", P + "fs69_diag", P + "fs69_point", P + "witness_full_disk", P + "witness_asmMain", P + "witness_utilMain",
                     P + "write_slots_free"],
        "rule": "cases = fill-to-exhaustion histories (74 tiny files: slot exhaustion; 40 multi-granule files: granule exhaustion; mixtures) under default "
                "and permuted fill orders, one file at a time; after the history the reference fsck recounts free granules and slots; the first "
                "failing add must be a clean diagnostic exactly when the file does not fit; plus the dsk.write histories",
        "assumptions": ["the fill order offers every granule (checked for the shipped order by the exhaustive fill histories and by Gen.granuleFillOrder entering the model)"],
    },
    "C14": {
        "level": "proof",
        "family": "cas",
        "modules": ["CoCoVerif.Props.C14", "CoCoVerif.Props.C14Parse"],
        "theorems": [P + "C14_full", P + "parse_written", "CoCo.Spec.Tape.parse_sound", "CoCo.Spec.Tape.parse_complete_strong",
                     "CoCo.Spec.Tape.parse_iff", "CoCo.Spec.Tape.wellFormed_unique"],
        "rule": "cases = seeded lists of 0..4 files as for C06; compared: the raw tape bytes of add_files (model vs implementation) and the "
                "strict checksum-verifying parser Spec.Tape.parse run on the implementation's buffer; non-trivial = at least one file; "
                "distinct = distinct (canonical input, outcome) digest",
        "assumptions": ["name characters, types and data bytes are < 256; addresses are 0..65535"],
    },
}

NOT_BUILT = "check not built yet at this commit (work in progress; see DESIGN.md section 9 for the order of work)"
NOT_APPLICABLE = {("C%02d" % i): NOT_BUILT for i in range(1, 20)}

MANIFEST_TEXT = {'C02': {'text': 'Lean: C02_full_v2 : C02_Statement_v2 (Props/C02Full, C02C03Final) - for EVERY accepted program: the image exists and is the in-order '
                 "concatenation of the statements' bytes (C02_image), addresses form the chain (C02_chain: first non-ORG statement at 0, every non-ORG "
                 "statement at its predecessor's address + size), EVERY statement emits exactly `size` bytes (C02_bytes_eq_size, Props/C02Size: instructions "
                 'of every addressing mode, register lists, data directives, RMB, FCC, directives that emit nothing; no hypothesis), Placement (C02_placement: '
                 "loading the image at the reported origin - the last ORG, 0 without one - places every statement's bytes at the address the listing shows), "
                 'every label is bound to the listing address of its statement and labels are unique (C02_labels), every EQU symbol has its defined value '
                 'incl. EQUs defined by expressions of constants, of other EQUs and of labels (C02_equ, EquDefined). No exclusion is left since fix f9c374f '
                 '(an ORG after the first label or byte is a diagnostic: orgOK, Lemmas/OrgFirst no_org_after_laid); the former B1 witnesses are *_fixed '
                 "theorems (rejected). The first formalisation C02_Statement demanded 'ORG is statement 0', which is stronger than the property "
                 '(C02_Statement_too_strong: C1 EQU 5 / ORG $100 / NOP is rightly accepted) - a slip of the statement, kept visible. C02_duplicate_label; '
                 'undefined symbols are C04/C05 theorems.',
         'design_ref': 'DESIGN.md section 5 C02, section 6 B',
         'note': 'no known finding left (B1 repaired by f9c374f); trusted: Lean kernel, correspondence, listing re-computation oracle incl. the EQU reference '
                 'evaluator',
         'technique': 'Lean 4 proof (address fold induction, frame lemmas for the later passes, symbol-table lemmas) + differential correspondence + listing '
                      're-computation oracle'},
 'C03': {'text': 'Lean: C03_full : C03_Statement (Props/C03Full, C02C03Final) - in EVERY accepted program every branch whose operand is a label stores a '
                 'displacement d with target = address + size + sext(d) (short) resp. mod 65536 (long) (C03_branch_full), and every label,PCR / [label,PCR] / '
                 'label+-c,PCR operand stores target - (address + size) in a field wide enough: the 8-bit form only for -128 <= d <= 127 (C03_pcr_label, '
                 'C03_pcr8_width, Props/C03Width: invariant WInv through the size loop). No hypothesis about ORG is left: C03_no_org_between_branch / _pcr '
                 'derive it from acceptance (orgOK). C03_diag_iff (a short branch is a diagnostic exactly when out of -128..+127, a long one beyond 16 bits), '
                 'C03_branch_is_label / C03_branch_nonlabel_rejected, C03_size_sound, C03_force_is_16, C03_pcr_minus_label_16bit (number - label takes the '
                 '16-bit form), tight witnesses at -128 / -129 / +127 / +128 and regression witnesses for the seven repaired defects found by this proof. '
                 "Numeric n,PCR (d = n) is C01's theorem (C01_full, C01_text_pcr_rendered).",
         'design_ref': 'DESIGN.md section 5 C03, section 6 B',
         'note': 'no known finding left (B1 repaired by f9c374f); trusted: Lean kernel, Spec/MC6809 sext, correspondence, decode-and-check-target oracle',
         'technique': 'Lean 4 proof (telescoping size sums to address differences; fixOne case analysis) + differential correspondence + '
                      'decode-and-check-target oracle'},
 'C13': {'text': "Lean: C13_full : C13_Statement - for EVERY file system and EVERY sequence of input lines the model's assembly ends with output or with a "
                 'diagnostic: assemble_not_diverged (the PCR size loop settles a statement per pass or the progress guard forces one; every other pass is a '
                 'fold) and assemble_never_internal (no stage can end in an internal error: proved stage by stage from invariants of the values the parser can '
                 'produce - parseLine(s)_no_internal, resolveF_good (the recursive evaluation of EQU expressions; a definition cycle is a diagnostic, standing '
                 'for the wrapped RecursionError), translate, the PCR loop, orgOK, address assignment, fix_addresses / fit_operand_width, evalSyms_good, '
                 'finalSymTab - and expand_includeFuel_ne_internal: the nesting budget of INCLUDE expansion, number of files + 1, is never exhausted because a '
                 'file that is being included is rejected, pigeonhole chain_length_le). Former internal-error witnesses are *_fixed / *_diag theorems '
                 "(C13_formerWitness_diag, the 70,002-line C13_witness_diag, C13_deepWitness_fixed: 65 nested files assemble). C10's asmMain_failure / "
                 'C11_orgLate_no_file give the exit-status clause.',
         'design_ref': 'DESIGN.md section 5 C13, section 6 I',
         'note': "no exclusion left in the model; model limit named: the interpreter's recursion limit (about 980 nested INCLUDE files, about 480 chained EQU "
                 'definitions) is reported by the code as a diagnostic (fixes 60b7841, 0f280be) and is not modelled; internal errors found on the way were '
                 'repaired (dfaa72e, 53e40d1, 3dc4a50, 077e4c2, 316e504, 8c9a9ea, 0addc5e, dfad397, 145359a, 8b7d004, 60b7841); the streams run under a 3 s '
                 'watchdog',
         'technique': 'Lean 4 proof (termination measure for the size fixpoint; outcome case analysis of the parser) + differential correspondence with '
                      'watchdog + CLI exit-status oracle'},
 'C17': {'text': 'Translation validation of a stateless model: the Lean model assemble is a pure function (C17_history_free, C17_repeatable are immediate), so '
                 'the content of this property is whether the PYTHON code carries state between assemblies; that is decided by running the implementation on '
                 'random histories (accepted and rejected programs interleaved) in one interpreter, in fresh processes and under different hash seeds, and '
                 "comparing each result with the implementation's own first result and with the history-free model, plus the source list before/after.",
         'design_ref': 'DESIGN.md section 5 C17',
         'note': 'not a proof about the Python: aliasing/mutation of module-level objects cannot be stated in Lean about a pure model; level '
                 'translation_validation',
         'technique': 'translation validation: history-free Lean model vs warm-process / fresh-process runs of the implementation (differential, metamorphic)'},
 'C18': {'text': 'Lean: C18_R3 (white space between fields, comments and mnemonic case do not change what a line parses to: scanLine_render is the '
                 'canonical-form lemma of the line scanner with the exact side condition under which a comment is not swallowed by the operand field), C18_R4 '
                 '(appending statements keeps the statements, symbol table and image of the shorter program as prefixes — proved through every stage incl. the '
                 'PCR size loop by a stuttering simulation). R1 RELOCATION (Props/C18Reloc*, Lemmas/Reloc*): reloc_assign_iff (the moved program is laid out '
                 'iff the original is, every address + D), reloc_fixOne_unmoved / _moved and reloc_bytes_unmoved / _moved (branches, PCR operands, label-label '
                 'and label-free operands emit identical bytes; label, label+k, label-k emit the same bytes with the 16-bit field + D), reloc_finish (symbol '
                 'table: labels + D, EQU constants unchanged) and reloc_finish_equ (an EQU defined by a label expression moves like an operand with that '
                 'expression: T EQU L+1 by D, LEN EQU M-L not at all), lifted to parsed programs and source text (C18_R1_parsed, C18_R1_code, C18_R1) and, AT '
                 'ANY ORIGIN incl. moves across $100, the *_any family (Lemmas/RelocAny: the value-level relation WideAddr replaced by the int-level IntAddr; '
                 'reloc_assign_iff_any, reloc_bytes_*_any, reloc_finish_any, C18_R1_code_any, C18_R1_equ_any; bytes and operand fields related exactly, '
                 'addresses and label values as numbers; kernel-checked witness reloc_crossing_100_witness at $00F8 / $01F8) (on the repaired statement: the '
                 "literal C18_R1_Statement is false because an arbitrary 'label' string can turn the ORG line into a comment - C18_R1_Statement_false); "
                 'classes with no claim are witnessed (reloc_crossing_100: JMP L is 2 bytes below $100; label*k; LEAX B-A,PCR). R2 RENAMING '
                 '(Props/C18RenameFull, Lemmas/Rename*): C18_R2_full / C18_R2_back - for a renaming rho that is injective on the names occurring in the '
                 'program and maps no symbol of an index left part to A / B / D or to a non-symbol (RenOK, decidable: renOKb), back (ss.map (renameStmt rho)) '
                 '= (back ss).map (rnAssembly rho): the same outcome kind, statement by statement the same op code, post byte, size, address and bytes, the '
                 'same image and origin, the symbol table with renamed keys and the same numbers (C18_R2_symtab) - pushed through every stage from buildSymTab '
                 'to finalSymTab, index left parts re-parsed from text (SimpleLeft shapes: symbol, number, atom op atom); C18_R2_text_check lifts it to two '
                 'concrete source texts by a decidable check, C18_R2_witness (labels in immediate, L,X, L+1,Y, PCR, [L,X], [L], branches, FCB/FDB, EQU '
                 'positions renamed to ST_1, LOOP@, AB, XY, PCR, _Z). The first formalisation C18_R2_Statement is false because its relation RenamedStmt did '
                 'not tie the operand text (PSHS A vs PSHS B with rho = id: C18_R2_Statement_false) - a slip of the statement, not of the assembler; '
                 'C18_R2_full is the repaired form. Not covered by a closed theorem: the text-level lifting for every operand syntax (decided per program by '
                 'renamedTextB, and by the metamorphic oracle).',
         'design_ref': 'DESIGN.md section 5 C18',
         'note': 'R1: the *_any theorems need only o + D < 65536; the whole-program finish theorems carry ListsConst (no LABEL element in an FCB/FDB list), '
                 'and for label elements the element / list / statement-level theorems of Props/C18RelocLists say what happens instead: a label word moves by '
                 'exactly D (C18_R1_list_label, reloc_list_stmt_words), label +- k by D mod 65536, label - label not at all; R2: RenOK asks the pending list '
                 'elements to be simple texts (ListsSimple) and the operand texts of such lists to be renamed element-wise (TxtOK; witness '
                 'C18_R2_witness_jumptable), with texts left alone it needs NoPendingLists; the text-level lifting for every operand syntax is per program '
                 '(decidable check); finding S1 repaired by 4e31349',
         'technique': 'Lean 4 proof (scanner canonical form; prefix stability through all passes) + metamorphic oracle on the implementation + differential '
                      'correspondence'},
 'C19': {'text': 'Lean: C19_full : C19_Statement - include_textual_full (for every file system, prefix, suffix and INCLUDE line: assembling with INCLUDE f '
                 'EQUALS assembling with the lines of f spliced in - image, listing, symbol table, and also the diagnostic outcome; unconditional since the '
                 'nesting budget is the number of files + 1: expand_fuel_irrelevant), include_textual_star_full (any nesting, by induction), '
                 'include_missing_full / include_cycle_full (a missing file and an inclusion cycle are diagnostics, at any depth). The former depth findings '
                 'are *_fixed theorems on the same witnesses.',
         'design_ref': 'DESIGN.md section 5 C19',
         'note': "no exclusion left in the model; model limit named: nesting deeper than the interpreter's recursion limit (about 980 files) is a diagnostic "
                 'in the code (fix 60b7841) and accepted by the model',
         'technique': 'Lean 4 proof (expansion distributes over concatenation, fuel monotonicity) + differential correspondence + '
                      'implementation-vs-implementation splice oracle'},
 'C09': {'text': 'Lean: sniff_written_disk (every image the tool writes as a disk is recognised as a disk, whatever its content), sniff_written_cassette (a '
                 'written cassette shorter than 161,280 bytes is recognised as a cassette), hist_cassette / hist_disk (for EVERY history of add-batches with '
                 'save and re-open in between, the final image is exactly the image of all files in order, so every stored file lists unchanged and new ones '
                 'come last; induction over the history using C06/C07/C08), C09_Statement_false via E1. Exclusions: E1, G1 (K_C09_bigCassette), disk names '
                 'with blanks.',
         'design_ref': 'DESIGN.md section 5 C09, section 6 G',
         'note': 'known findings E1, G1; trusted: Lean kernel, Spec files, correspondence (real temp files vs abstract FS)',
         'technique': 'Lean 4 proof (refinement of save/re-open histories to an append-only file list, sniffing lemmas) + differential histories on real files '
                      '+ reader oracle'},
 'C10': {'text': 'Lean: C10_partial (a successful open/add/save changes only the target path; an existing target is rewritten only when append was requested '
                 "AND the tool's sniffer took its old content for an image of the requested kind, and the new content is exactly the image of old files ++ new "
                 'files), C10_no_append (without append an existing target is never written), C10_outside_exclusion (the statement with the FORMAT '
                 'specifications as criterion, outside K_C10_sniff = sniffer accepts what the specification rejects: finding G1), asmMain_failure (no '
                 'successful assembly => exit 1 and the file system unchanged). PARTIAL by nature: non-atomic host writes and exists-races are outside any '
                 'model.',
         'design_ref': 'DESIGN.md section 5 C10',
         'note': 'known finding G1; named remainder: OS write atomicity, os.path.exists races',
         'technique': 'Lean 4 proof over an abstract host file system (frame + guard theorem for open/add/save) + differential runs of both command lines on '
                      'real files + format-spec classification oracle'},
 'C11': {'text': 'Lean: C11_Statement_holds : C11_Statement (Props/C11Full) - for every accepted program, fresh target path and ASCII name: the raw binary '
                 'written is the assembled image (C11_bin), the cassette / disk file written is Cas.write [f] / Dsk.write [f] for f = (name, image, load = '
                 'exec = origin) and, with C14/C06 resp. C08/C07, is well formed and lists exactly that file (C11_cas / C11_dsk), the name is NAM or --name '
                 '(C11_name_source / C11_name_arg), without a name no cassette or disk file is created (C11_noname). The two former hypotheses about the '
                 "assembler's output are theorems now: C11_image_bytes (Lemmas/ImageBytes: every byte of every image is below 256 - invariant Value.MOK "
                 "through parser, resolve, translate, PCR loop, fixOne / fitWidth) and C11_origin_lt (the origin's address as main derives it from the hex "
                 'string is below 65536). C11_orgLate_no_file: a rejected program gives exit 1 and writes nothing.',
         'design_ref': 'DESIGN.md section 5 C11',
         'note': 'hypotheses left: the target path is new (C10 covers existing targets) and the name is ASCII (input restriction); E1 for an empty program; '
                 'the entry address is the origin (the tool never uses the END operand)',
         'technique': 'Lean 4 proof (glue lemmas composing the assembler model with C06/C07/C08/C14) + differential command-line runs + reference-reader '
                      'oracle'},
 'C16': {'text': "Lean: C16_to_cas / C16_to_dsk / C16_to_bin (the converted image is the writer's image of exactly the selected files of the source in source "
                 'order; --to_bin refuses more than one file), C16_selected_* (selection is case-insensitive), C16_chain_cas_dsk_cas / C16_chain_dsk_cas_dsk '
                 '(converting back yields the original file set up to the normalisation of each container), C16_partial.',
         'design_ref': 'DESIGN.md section 5 C16',
         'note': 'exclusions inherited: E1, G1; trusted as for C06/C07',
         'technique': 'Lean 4 proof (filter lemma + container round-trip theorems) + differential file_util runs + reference-reader oracle'},
 'C01': {'text': 'Lean: (i) table_matches_datasheet / map_covered - the instruction table REGENERATED from /repo on every run agrees cell by cell (operation, '
                 'addressing mode, size) with the datasheet opcode map, both directions, by kernel evaluation over all 150 rows; (ii) Encodes r o x = '
                 'translate, then fit_operand_width (fitWidth), then emit: the bytes are read back by the datasheet decoder as exactly that operation and '
                 'operand, byte count = size. C01_full : C01_Statement - for EVERY non-pseudo row and EVERY operand of the full-strength relation Intends '
                 '(inherent; 8-/16-bit immediates incl. negatives; direct; extended; [extended indirect]; no-offset, auto inc/dec, accumulator forms for X Y U '
                 'S and their indirect variants; 5/8/16-bit constant offsets of either sign, direct and indirect; numeric n,PCR and [n,PCR]; all TFR/EXG '
                 'pairs; push/pull lists) the statement is encoded as written, for ALL operand values and ANY spelling hint; C01_full_emitted lifts it to the '
                 'fixAll step of any program; the former findings are *_fixed theorems on the same witnesses (LDD 100,X = EC 88 64; LDA #256 rejected; PSHU S '
                 '= 36 40; LDA 0,PCR = A6 8C 00 ...); (iii) C01_text_partial / C01_text_rendered / C01_text_pcr_rendered (Props/C01Text): the same from the '
                 'OPERAND TEXT for every spelling family (decimal / $hex literals as immediates, direct, extended, <n, >n, >$hh, [indirect]; ,R ,R+ ,R++ ,-R '
                 ',--R, A,R B,R D,R for X Y U S with [..] variants; decimal offsets of every width and sign; n,PCR) plus rejection theorems. Intends speaks '
                 'about numeric operands; label operands: C01_label_offset (a label or label expression as constant offset of a pointer register and inside '
                 '[..], since fix 831a353) and C03 (label,PCR, branches); (iv) C01_text_symbol (Props/C01TextSym): from the operand TEXT naming an EQU symbol, '
                 'for any symbol table - #nm on 8- and 16-bit rows (signed range, out of range rejected), nm (direct below 256, extended above), <nm, >nm, '
                 '[nm], nm,R and [nm,R] for X Y U S (shortest form that holds the value), nm,PCR and [nm,PCR] - each reduced to C01_full through the front '
                 "end; equ_binds ties it to what `label EQU literal` stores; whole-program witness symProg_assembles (66 bytes). Expressions: C04's theorems "
                 'plus the statement matrix.',
         'design_ref': 'DESIGN.md section 5 C01, section 6 A',
         'note': 'no known finding left for C01; trusted: Spec/MC6809*.lean, Lean kernel, correspondence (statement matrix complete in the thorough tier, '
                 'sampled in quick)',
         'technique': 'Lean 4 proof (kernel-evaluated table check + per-addressing-mode encode/decode theorems for all values) + differential correspondence + '
                      'datasheet-decoder oracle'},
 'C12': {'text': 'Lean: C12_full : C12_Statement (Props/C12Full, Lemmas/EncodeShape) - for every machine-instruction row, EVERY operand text and every table '
                 'of EQU constants: the operand the front end builds (create_from_str cascade, then resolve_symbols), if translate and fit_operand_width '
                 'accept it, emits exactly `size` bytes that the datasheet decoder reads as ONE complete instruction of that mnemonic consuming all of them. '
                 'Proved by a shape theorem for everything the front end can build (frontEnd_shape) and one soundness theorem per shape; the index-register '
                 'text is validated since fix d1a841f, which makes the case analysis finite. Rejections: C12_imm8/imm16/direct_out_of_range_rejected (values '
                 "that cannot be represented in the operand's width), C12_unknown_index_register_rejected (5,Z 1,PC 5,y ,X+++), C12_own_stack_pointer_rejected "
                 '(PSHS S, PSHU U), C12_unknown_register_rejected, C12_pcr_without_offset_rejected; C12_fitted_size (the size half for every statement of any '
                 'program). The former finding C12_finding_acc_autoincrement (LDA A,X+ accepted as A,X) is repaired (480ca57) and a *_fixed theorem. Label '
                 "operands (branches, label,PCR) are completed by the address pass and are C03's and C02's theorems; arbitrary text is additionally covered by "
                 'the correspondence and the decoder oracle.',
         'design_ref': 'DESIGN.md section 5 C12, section 6 A, H',
         'note': 'no known finding left for C12; trusted: Spec/MC6809*.lean, Lean kernel, correspondence',
         'technique': 'Lean 4 proof (soundness dual of C01 on the proved region, refutation witnesses) + differential correspondence + datasheet-decoder '
                      'oracle on accepted statements'},
 'C04': {'text': 'Lean: C04_full : C04_Statement and C04_label_full - (numeric part) for operands of EITHER sign a two-term expression resolves to the '
                 'arithmetic value of + - * and truncating / (resolve_signed, resolve_symbols_signed), the result being an extended address above 255 and a '
                 'negative memory operand the extended address mod 65536; division by zero and results above 65535 are errors; (symbol part) EQU symbols are '
                 'replaced by their table value whatever the definition order (resolve_symbol_left/right, resolve depends on the table only through lookups: '
                 'SymbolPart clause 4, re-proved for the fuelled resolveF); an EQU DEFINED BY AN EXPRESSION stands for the arithmetic value of that expression '
                 'wherever it is used and in the symbol table (resolve_symbol_equ_expression(_error), resolve_expr_equ_expression_left, chains '
                 'C04_equ_expression_chain, cycles and self reference are diagnostics: resolve_symbol_self_reference, C04_equ_expression_cycle); label '
                 'arithmetic: addrOffset_* (label +- constant, label op label from the ADDRESSES in the order written, signed constants, a result below zero '
                 "reduced mod 65536, overflow and division by zero are diagnostics); symbols may contain '_' and '@' (C04_symbol_characters_fixed). The width "
                 "per operand position is C01's / C12's theorem (fit_operand_width).",
         'design_ref': 'DESIGN.md section 5 C04, section 6 C',
         'note': 'no known finding left for C04 (C3, C4 and the operand-order finding are repaired: 831a353, 0f280be, bd9f69a); symbols inside FCB/FDB lists '
                 "are evaluated since e6da74c (C05's list theorems); model limit: Python's recursion limit (about 480 nested EQU definitions) is not modelled, "
                 "the model's fuel is the table length + 1",
         'technique': 'Lean 4 proof (expression evaluator and address-offset lemmas) + differential correspondence + arithmetic oracle on decoded operand '
                      'values'},
 'C05': {'text': "Lean: C05_full proves C05_Statement at full strength on the model: a single FCB / FDB value emits its two's complement at one / two bytes "
                 '(through fit_operand_width) for every in-range value incl. negatives, out-of-range values are rejected, lists likewise element by element '
                 '(C05_FCB/FDB_signed_list(_rejected)), RMB n emits n zero bytes for every n and a negative or non-numeric count is rejected, FCC emits '
                 'exactly the characters of the parsed string, EQU/SETDP/NAM/END/INCLUDE/ORG emit nothing; C05_FCC_line_as_written / C05_FCC_line_bytes (since '
                 'fix d74c37d, GENERAL): for a line `label FCC d body d tail` with any non-blank delimiter d and any body of 8-bit characters without d - '
                 "blanks, runs of blanks, ';' and punctuation included - the bytes are exactly the characters of body and the comment is tail; symbols: "
                 'C05_FCB/FDB/RMB/ORG_symbol, C05_undefined_symbol; whole-program kernel-checked witnesses through assemble. LISTS WITH SYMBOLS (since fix '
                 'e6da74c; the former finding C2): C05_list_positions (literal positions keep their digits, an element that is a symbol or a two-term '
                 'expression is evaluated), C05_list_elem_value_FCB/_FDB and _symbol_/_label_/_label_expr/_undefined (an element bound to a constant n is the '
                 "two's complement of n at the directive's width for -128..255 resp. -32768..65535 and a diagnostic outside; a label is its address, or a "
                 'diagnostic when it does not fit a byte; an undefined symbol is a diagnostic), C05_list_literals_unchanged, kernel-checked programs '
                 'C05_program_list_labels (T FDB L1,L2,T,$1234,L1+1,L2-L1), C05_program_list_symbols, C05_program_list_rejected; '
                 'C05_finding_list_symbol_fixed. No known finding is left for C05.',
         'design_ref': 'DESIGN.md section 5 C05, section 6 D',
         'note': 'no known finding left (C2 repaired by e6da74c, D3 by d74c37d); trusted: Lean kernel, correspondence, byte-exact oracle on the emitted IMAGE',
         'technique': 'Lean 4 proof (data-directive emission lemmas by induction over value lists / string / count) + differential correspondence + byte-exact '
                      'oracle'},
 'C07': {'text': 'Lean theorem C07_full : C07_Statement - (a) C07_write_list: for EVERY valid fill order and file list list(write fs) = norm fs; (b) '
                 'C07_reader_full: the reader returns exactly what the reference reader Spec.DiskBasic.read finds on ANY image satisfying Spec.DiskBasic.Fsck, '
                 "chains in any order, not adjacent, including last-granule markers that say 'no sector in use' ($C0) - the former exclusion "
                 'K_C07_zeroSectorAscii is gone since fix 1246755 (C07_finding_zeroSector_fixed: the tool had returned 2048 bytes of filler for such an ASCII '
                 'file). Proved from an invariant over operation histories on the flat 161,280-byte buffer. Tie: differential runs on written, fragmented '
                 '(incl. $C0 markers) and damaged images every run.',
         'design_ref': 'DESIGN.md section 5 C07, section 6 F',
         'note': 'no exclusion left; model = disk.py after the fix: commits (reader follows the FAT chain; zero-sector marker); trusted: Spec/DiskBasic.lean, '
                 'Lean kernel, sampled correspondence',
         'technique': 'Lean 4 proof (history invariant on the flat disk buffer, chain-walk induction) + differential correspondence + reference fsck/reader '
                      'oracle'},
 'C08': {'text': 'Lean theorem C08_full: for every fill order with entries < 68 and every sequence of stored files, the image written satisfies '
                 'Spec.DiskBasic.Fsck (size, chains within 0..67 ending in $C0..$C9 without revisits, disjoint, every non-free FAT entry on a chain, implied '
                 'length = stored stream incl. ML header/trailer, everything else still $FF) and the reference reader returns exactly the stored files. No '
                 'exclusions. Tie: whole-image hash + FAT + directory compared with the implementation on every run; calculate_*/seek_granule exhaustively.',
         'design_ref': 'DESIGN.md section 5 C08',
         'note': 'model = disk.py after the fix: commits (postamble split across granules); trusted: Spec/DiskBasic.lean, Lean kernel, correspondence '
                 '(exhaustive on the arithmetic helpers, sampled on histories)',
         'technique': 'Lean 4 proof: ghost-abstraction invariant Inv img abs preserved by addFile, lifted by induction over histories + differential '
                      'correspondence + fsck oracle'},
 'C15': {'text': "Lean theorem C15_full: on every image reachable from a blank one, a file needing n <= free granules with a free slot is stored with free' = "
                 "free - n, slots' = slots - 1, previously used FAT entries untouched, n = streamLength/2304 + 1; otherwise addFile is a diagnostic; blank "
                 'offers 68 and 72. Tie: fill-to-exhaustion histories against the implementation one add at a time, recounted by the reference fsck. Host-file '
                 'clause (Props/C15Host, Lemmas/DiskFull): write_disk_full_iff (a whole write is a diagnostic exactly when the files need more than 68 '
                 'granules in total or are more than 72), storeTo_disk_full / storeTo_disk_full_written / storeTo_frame (a target that cannot hold the files '
                 'is refused and the host file system is exactly what it was, for either append flag), asmMain_disk_full (the tool prints the error, exit 0, '
                 'target untouched), utilMain_disk_full (exit 1, file system unchanged); witnesses without evaluating an image (69 one-byte files).',
         'design_ref': 'DESIGN.md section 5 C15',
         'note': "the host clause is a theorem on the VirtualFile model (Props/C15Host); side finding write_slots_free: on tool-written images the 'no slot "
                 "free' refusal can never be the one that triggers; trusted as for C08",
         'technique': 'Lean 4 proof (corollary of the C08 invariant with counting) + differential fill-to-exhaustion histories + fsck recount oracle'},
 'C06': {'text': 'Lean theorems C06_roundtrip_partial (list(write fs) = norm fs for every file list, every data length and content) and C06_reader_partial '
                 '(the scanning reader returns exactly the files of ANY well-formed tape stream: arbitrary gap/leader lengths, gaps between data blocks, '
                 'payloads containing the block markers), by induction over the tape grammar; the only exclusion is files with empty data (known finding E1, '
                 'itself a kernel-checked theorem C06_finding_E1). The model is tied to cassette.py on every run by differential execution (tool-written '
                 'images, spec-generated tapes, damaged streams).',
         'design_ref': 'DESIGN.md section 5 C06, section 6 E',
         'note': 'assumes ASCII names and byte-sized fields; trusted: Spec/Tape.lean, Lean kernel, the sampled correspondence (model = code only on inputs '
                 'compared)',
         'technique': 'Lean 4 proof by induction over the tape grammar (model of cassette.py) + differential correspondence + strict-parser oracle'},
 'C14': {'text': 'Lean theorem C14_full: for EVERY list of files the bytes written are a well-formed tape stream (Spec.Tape.WellFormed: per file filler, '
                 '15-byte name-file block, data blocks of 1..255 bytes concatenating to the data, EOF block; every block framed with length and checksum '
                 '(type+len+sum) mod 256) and consist of bytes; no exclusions. Tie: raw tape bytes of add_files compared with the model on every run, and the '
                 "strict checksum-verifying parser run on the implementation's buffers.",
         'design_ref': 'DESIGN.md section 5 C14',
         'note': 'trusted: Spec/Tape.lean (WellFormed, parse), Lean kernel, sampled correspondence of Cas.write with CassetteFile.add_files',
         'technique': 'Lean 4 constructive proof of the tape-grammar decomposition + differential correspondence on raw bytes + strict-parser oracle'}}
