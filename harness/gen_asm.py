"""
harness/gen_asm.py — generators of assembler inputs (grammar-directed, boundary-directed, malformed).
Every generator yields dict(lines=[...], files=None|{...}, tag=..., meta={...}); `meta` carries what the
oracles need (the form generated, expected value, statement index ...).  All randomness comes from the
`random.Random` passed in.
"""
import itertools

from common import repo_import_path

repo_import_path()
from cocoasm.instruction import INSTRUCTIONS   # noqa: E402

CHARLIT = "abcdefghijklmnopqrstuvwxyzABCDEFGHIJKLMNOPQRSTUVWXYZ0123456789><'\";:,.#?$%^&*()=!+-/"
IMMV = [0, 1, 15, 16, 127, 128, 255, 256, 4660, 32767, 32768, 65535, -1, -16, -17, -128, -129, -32768]
OFFV = [0, 1, 15, 16, 17, 127, 128, 255, 256, 32767, 32768, 65535, -1, -16, -17, -128, -129, -32768]
MEMV = [0, 1, 0x7F, 0xFF, 0x100, 0x1234, 0xFFFF]
REGS = "XYUS"
REG10 = ["A", "B", "D", "X", "Y", "U", "S", "CC", "DP", "PC"]


def L(*lines):
    return [l + "\n" for l in lines]


def spell(v, all_forms=True):
    out = [("dec", str(v))]
    if v >= 0:
        out += [("hex", "$%X" % v), ("hex4", "$%04X" % v)]
        if v < 256:
            out += [("hex2", "$%02X" % v), ("bin8", "%" + format(v, "08b"))]
        out += [("bin16", "%" + format(v, "016b"))]
        if 0x21 <= v < 0x7F and chr(v) in CHARLIT:
            out.append(("char", "'" + chr(v)))
    return out if all_forms else out[:3]


def real_instructions():
    return [i for i in INSTRUCTIONS if not i.is_pseudo]


def stmt_matrix(rnd, sample=None):
    """every mnemonic x every operand form of the README grammar x boundary values x spellings.
    meta: form description used by the C01/C12 oracle. `sample`: keep each case with this probability."""
    def keep():
        return sample is None or rnd.random() < sample
    for ins in real_instructions():
        mn = ins.mnemonic
        if ins.is_short_branch or ins.is_long_branch:
            continue
        if ins.is_special:
            continue
        yield {"lines": L(" " + mn), "tag": "inh", "meta": {"mn": mn, "form": "inh"}}
        for v in IMMV:
            for sk, s in spell(v):
                if keep():
                    yield {"lines": L(" %s #%s" % (mn, s)), "tag": "imm", "meta": {"mn": mn, "form": "imm", "v": v, "sp": sk}}
        for v in MEMV:
            for sk, s in spell(v):
                if not keep():
                    continue
                yield {"lines": L(" %s %s" % (mn, s)), "tag": "mem", "meta": {"mn": mn, "form": "mem", "v": v, "sp": sk}}
                yield {"lines": L(" %s <%s" % (mn, s)), "tag": "dirf", "meta": {"mn": mn, "form": "dirf", "v": v, "sp": sk}}
                yield {"lines": L(" %s >%s" % (mn, s)), "tag": "extf", "meta": {"mn": mn, "form": "extf", "v": v, "sp": sk}}
                yield {"lines": L(" %s [%s]" % (mn, s)), "tag": "extind", "meta": {"mn": mn, "form": "extind", "v": v, "sp": sk}}
        for R in REGS:
            for ind in (False, True):
                br = (lambda t: "[" + t + "]") if ind else (lambda t: t)
                for kind, t in (("off0", "," + R), ("inc1", "," + R + "+"), ("inc2", "," + R + "++"), ("dec1", ",-" + R), ("dec2", ",--" + R)):
                    if keep():
                        yield {"lines": L(" %s %s" % (mn, br(t))), "tag": "idx", "meta": {"mn": mn, "form": "idx", "k": kind, "reg": R, "ind": ind}}
                for acc in "ABD":
                    if keep():
                        yield {"lines": L(" %s %s" % (mn, br(acc + "," + R))), "tag": "idx", "meta": {"mn": mn, "form": "idx", "k": "acc", "acc": acc, "reg": R, "ind": ind}}
                for v in OFFV:
                    for sk, s in spell(v):
                        if sk in ("bin8", "bin16", "hex2", "char") and v not in (1, 127, 255):
                            continue
                        if keep():
                            yield {"lines": L(" %s %s" % (mn, br(s + "," + R))), "tag": "idxoff",
                                   "meta": {"mn": mn, "form": "idx", "k": "off", "v": v, "reg": R, "ind": ind, "sp": sk}}
        for ind in (False, True):
            br = (lambda t: "[" + t + "]") if ind else (lambda t: t)
            for v in OFFV:
                for sk, s in spell(v, False):
                    if keep():
                        yield {"lines": L(" %s %s" % (mn, br(s + ",PCR"))), "tag": "npcr",
                               "meta": {"mn": mn, "form": "npcr", "v": v, "ind": ind, "sp": sk}}


def special_matrix(rnd):
    SZ = {"A": 8, "B": 8, "CC": 8, "DP": 8, "D": 16, "X": 16, "Y": 16, "U": 16, "S": 16, "PC": 16}
    for mn in ("TFR", "EXG"):
        for a in REG10 + ["Z", "x"]:
            for b in REG10 + ["Z"]:
                yield {"lines": L(" %s %s,%s" % (mn, a, b)), "tag": "pair",
                       "meta": {"mn": mn, "form": "pair", "a": a, "b": b, "valid": a in SZ and b in SZ and SZ[a] == SZ[b]}}
        yield {"lines": L(" %s A" % mn), "tag": "pair", "meta": {"mn": mn, "form": "pair", "a": "A", "b": "", "valid": False}}
        yield {"lines": L(" %s A,B,CC" % mn), "tag": "pair", "meta": {"mn": mn, "form": "pair", "a": "A", "b": "B,CC", "valid": False}}
    BIT = {"CC": 1, "A": 2, "B": 4, "DP": 8, "X": 0x10, "Y": 0x20, "PC": 0x80, "D": 6}
    for mn, other in (("PSHS", "U"), ("PULS", "U"), ("PSHU", "S"), ("PULU", "S")):
        own = "S" if other == "U" else "U"
        regs = list(BIT) + [other, own]
        combos = list(itertools.permutations(regs, 1)) + list(itertools.permutations(regs, 2)) + \
            [("A", "B", "X"), ("D", "X", "Y"), ("CC", "PC", other), ("X", "Y", own), tuple(list(BIT) + [other])]
        for combo in combos:
            mask = 0
            for x in combo:
                mask |= BIT.get(x, 0x40)
            yield {"lines": L(" %s %s" % (mn, ",".join(combo))), "tag": "list",
                   "meta": {"mn": mn, "form": "list", "regs": list(combo), "mask": mask, "valid": own not in combo}}
        for bad in ("", "Q", "A,", ",A", "a", "A,,B"):
            yield {"lines": L(" %s %s" % (mn, bad)), "tag": "list", "meta": {"mn": mn, "form": "list", "regs": [bad], "mask": 0, "valid": False}}


def symbol_matrix(rnd):
    """EQU constants in each spelling used in each operand position; labels in each position"""
    for v in [0, 5, 0x12, 0x7F, 0x80, 0xFF, 0x100, 0x1234, 0xFFFF]:
        for sk, s in spell(v):
            pre = "SYM EQU " + s
            for mn in ("LDA", "LDX", "JMP", "STD", "LEAX", "CMPS"):
                for form, t in (("imm", "#SYM"), ("mem", "SYM"), ("extind", "[SYM]"), ("idxsym", "SYM,Y"), ("idxsymind", "[SYM,Y]"),
                                ("mem+1", "SYM+1"), ("imm+1", "#SYM+1"), ("dirf", "<SYM"), ("extf", ">SYM")):
                    yield {"lines": L(pre, " %s %s" % (mn, t)), "tag": "sym", "meta": {"mn": mn, "form": form, "v": v, "sp": sk, "stmt": 1}}
                    # defined after use
                    yield {"lines": L(" %s %s" % (mn, t), pre), "tag": "sym-late", "meta": {"mn": mn, "form": form, "v": v, "sp": sk, "stmt": 0}}
    # negative EQU constants where a signed value is meaningful: immediates of both widths and index offsets (a value that
    # does not fit the operand's width must be rejected however the constant reached the operand)
    for v in [-1, -5, -16, -17, -127, -128, -129, -200, -255, -256, -257, -32768]:
        for pre in ("SYM EQU %d" % v, "SYM EQU 0%d" % v):
            for mn in ("LDA", "LDX", "CMPB", "ORCC", "ADDD", "LEAX", "STD"):
                for form, t in (("imm", "#SYM"), ("imm+1", "#SYM+1"), ("idxsym", "SYM,Y"), ("idxsymind", "[SYM,Y]")):
                    yield {"lines": L(pre, " %s %s" % (mn, t)), "tag": "sym", "meta": {"mn": mn, "form": form, "v": v, "sp": "neg", "stmt": 1}}
                    yield {"lines": L(" %s %s" % (mn, t), pre), "tag": "sym-late", "meta": {"mn": mn, "form": form, "v": v, "sp": "neg", "stmt": 0}}
    for org in (None, 0x10, 0x100, 0x3F00, 0xFF00):
        for mn in ("LDA", "LDX", "JMP", "LEAY"):
            for form, t in (("imm", "#LBL"), ("mem", "LBL"), ("extind", "[LBL]"), ("mem+1", "LBL+1"), ("mem-1", "LBL-1"), ("imm+1", "#LBL+2"),
                            ("idxlbl", "LBL,X"), ("dirf", "<LBL"), ("extf", ">LBL"), ("extind+1", "[LBL+1]"), ("idxlbl+1", "LBL+1,X")):
                for late in (False, True):
                    body = [" %s %s" % (mn, t), " NOP", "LBL NOP"] if late else ["LBL NOP", " NOP", " %s %s" % (mn, t)]
                    lines = ([" ORG $%X" % org] if org is not None else []) + body
                    yield {"lines": L(*lines), "tag": "label", "meta": {"mn": mn, "form": form, "org": org, "late": late,
                                                                        "stmt": (1 if org is not None else 0) + (0 if late else 2)}}
                if org is not None:
                    # the label sits on the ORG statement itself (statement index 0, address = the origin)
                    yield {"lines": L("LBL ORG $%X" % org, " NOP", " %s %s" % (mn, t)), "tag": "label",
                           "meta": {"mn": mn, "form": form, "org": org, "late": False, "stmt": 2}}


def expr_matrix(rnd):
    """two-term expressions over numbers / EQU symbols / labels in every operand position (C04)"""
    VALS = [0, 1, 2, 0xFF, 0x100, 0x7FFF, 0x8000, 0xFFFF]
    for a in VALS:
        for b in [0, 1, 2, 0xFF, 0x100]:
            for op in "+-*/":
                for la, lb in (("lit", "lit"), ("sym", "lit"), ("lit", "sym"), ("sym", "sym")):
                    pre = []
                    ta = str(a) if la == "lit" else "SA"
                    tb = ("$%X" % b) if lb == "lit" else "SB"
                    if la == "sym":
                        pre.append("SA EQU %d" % a)
                    if lb == "sym":
                        pre.append("SB EQU $%04X" % b)
                    e = ta + op + tb
                    for mn, pos, t in (("LDX", "imm", "#" + e), ("LDA", "mem", e), ("LDD", "extind", "[" + e + "]"), ("LDA", "idx", e + ",X"),
                                       ("LEAX", "pcr", e + ",PCR"), ("FDB", "fdb", e), ("FCB", "fcb", e)):
                        yield {"lines": L(*(pre + [" %s %s" % (mn, t)])), "tag": "expr",
                               "meta": {"mn": mn, "pos": pos, "a": a, "b": b, "op": op, "stmt": len(pre)}}
                    yield {"lines": L(*(pre + ["R EQU " + e, " LDX #R"])), "tag": "expr-equ", "meta": {"pos": "equ", "a": a, "b": b, "op": op, "stmt": len(pre) + 1}}


def data_cases(rnd, n=300):
    ELEMS = ["0", "1", "255", "256", "-1", "-128", "-129", "$7F", "$FF", "$100", "$FFFF", "%10101010", "'A", "65535", "65536", "SYM", "-32768", "$12345", "", "1+1"]
    for mn in ("FCB", "FDB"):
        for e in ELEMS:
            yield {"lines": L("SYM EQU 7", " %s %s" % (mn, e)), "tag": "data1", "meta": {"mn": mn, "elems": [e], "stmt": 1}}
        for _ in range(n // 4):
            k = rnd.choice([2, 2, 3, 5, 16, 64])
            es = [rnd.choice(ELEMS[:13]) if rnd.random() < 0.8 else rnd.choice(ELEMS) for _ in range(k)]
            yield {"lines": L("SYM EQU 7", " %s %s" % (mn, ",".join(es))), "tag": "dataN", "meta": {"mn": mn, "elems": es, "stmt": 1}}
    for v in [0, 1, 2, 5, 255, 256, 1000, 65535, -1, "$10", "$0100", "SYM", ""]:
        yield {"lines": L("SYM EQU 7", " RMB %s" % v, " NOP"), "tag": "rmb", "meta": {"mn": "RMB", "v": v, "stmt": 1}}
    # symbols, expressions and labels in single-value data directives and in RMB / ORG (evaluated since 3dd5ba5)
    DS = [
        (["SYM EQU 7", " ORG $3F00", "T FDB T", " FDB L2", " FDB L2+1", " FCB SYM+1", "L2 FCB SYM", " FDB SYM"],
         {2: "3f00", 3: "3f07", 4: "3f08", 5: "08", 6: "07", 7: "0007"}),
        (["N EQU 300", "B RMB N", " NOP"], {1: "00" * 300}),
        (["N EQU 0", "B RMB N", " NOP"], {1: ""}),
        (["S EQU $2000", " ORG S", "A NOP", " FDB A", " FDB A-1"], {3: "2000", 4: "1fff"}),
        ([" ORG $10", "L NOP", " FCB L", " FDB L", " FCB L+1"], {2: "10", 3: "0010", 4: "11"}),
        (["L NOP", " NOP", " FDB L", " FDB L-1"], {2: "0000", 3: "ffff"}),
        ([" ORG $100", "L NOP", " FCB L"], None),            # an address above $FF does not fit a byte
        (["L NOP", " RMB L"], None),                          # a label is not a count
        (["L NOP", " ORG L"], None),                          # a label is not an origin
        (["N EQU -1", " RMB N"], None),                        # a negative count
        (["N EQU -2", " FCB N", " FDB N", " FDB N+1", " FCB N*2"], {1: "fe", 2: "fffe", 3: "ffff", 4: "fc"}),
        (["S EQU -5", " ORG S"], None),                        # a negative origin
        # symbols, expressions and labels inside LISTS (jump tables), evaluated since the list repair
        ([" ORG $2000", "T FDB L1,L2,T,$1234,L1+1,L2-L1", "L1 NOP", "L2 RTS"], {1: "200c200d20001234200d0001"}),
        (["S EQU 7", " FCB 1,S,S*2,'A,S+1", " FDB S,1,S-8"], {1: "01070e4108", 2: "00070001ffff"}),
        ([" ORG $10", "L NOP", " FCB L,1,L+1", " FDB L,L"], {2: "100111", 3: "00100010"}),
        ([" FDB E,1", "E EQU A+1", "A EQU 5"], {0: "00060001"}),
        ([" ORG $100", "L NOP", " FCB 1,L"], None), ([" FCB 1,UNDEF"], None), ([" FDB 1,A", "A EQU B+1", "B EQU A+1"], None), ([" FCB 1,S", "S EQU 300"], None),
        ([" FCB 1,S", "S EQU -129"], None), ([" FDB 5/Z,1", "Z EQU 0"], None), (["L FDB L/0,1"], None), ([" FCB 1,#5"], None), ([" FCB 1,1+"], None),
        ([" FCB 1,<S", "S EQU 5"], {0: "0105"}), ([" FCB S,", "S EQU 5"], {0: "05"}), ([" FDB ,L", "L NOP"], {0: "0002"}),
        (["N EQU -200", " FCB N"], None), (["N EQU -129", " FCB N"], None), (["N EQU -255", " FCB N"], None), (["N EQU 0-200", " FCB N"], None),
        ([" FCB N", "N EQU -200"], None), (["N EQU 256", " FCB N"], None),
        (["N EQU -128", " FCB N", " FDB N"], {1: "80", 2: "ff80"}), (["N EQU -32768", " FDB N"], {1: "8000"}), (["N EQU 255", " FCB N"], {1: "ff"}),
        ([" FCB 0-1", " FCB 0-128", " FDB 0-1", " FDB 1-32769"], {0: "ff", 1: "80", 2: "ffff", 3: "8000"}),
        ([" FCB 0-129"], None),
        ([" FCB 255+1"], None),
        ([" FDB 65535+1"], None),
    ]
    for lines, expect in DS:
        yield {"lines": L(*lines), "tag": "datasym", "meta": {"mn": "DATASYM", "expect": expect, "stmt": 0}}
    PRINT = "".join(chr(c) for c in range(0x20, 0x7F))
    for _ in range(n // 2):
        d = rnd.choice("\"'/|!.")
        body = "".join(rnd.choice(PRINT if rnd.random() < 0.7 else "ab ;  ,") for _ in range(rnd.choice([0, 1, 2, 5, 11, 40, 255])))
        body = body.replace(d, "x")
        tail = rnd.choice(["", " comment", " ; c", ";c"])
        yield {"lines": L("MSG FCC %s%s%s%s" % (d, body, d, tail), " NOP"), "tag": "fcc", "meta": {"mn": "FCC", "s": body, "d": d, "stmt": 0}}
    for mn in ("EQU", "ORG", "SETDP", "NAM", "END", "INCLUDE"):
        for opnd in ("", "$10", "START", "5"):
            lbl = "Q" if mn == "EQU" else ""
            yield {"lines": L("START NOP", "%s %s %s" % (lbl, mn, opnd), " NOP"), "tag": "noemit", "meta": {"mn": mn, "opnd": opnd, "stmt": 1}}


def equ_cases(rnd, n=120):
    """EQUs defined by expressions: of constants, of other EQUs (chains, any definition order), of labels; definition
    cycles; undefined symbols; names with '_' and '@'.  meta.uses = [(statement index, position, operand text)];
    the oracle evaluates the texts with its own reference evaluator (props_asm.ref_eval)."""
    NAMES = [["K", "E0", "E1", "E2", "E3"], ["K_1", "E_0", "E_1", "E_2", "E_3"], ["@K", "E@0", "E@1", "_E2", "E3_"]]
    for _ in range(n):
        nm = rnd.choice(NAMES) if rnd.random() < 0.6 else NAMES[0]
        depth = rnd.choice([1, 1, 2, 2, 3, 4])
        kval = rnd.choice(["5", "$10", "$0100", "300", "-5", "-200", "0", "255", "$7FFF", "%00001111", "'A"])
        defs = ["%s EQU %s" % (nm[0], kval)]
        lit = lambda: rnd.choice(["0", "1", "2", "3", "$10", "$FF", "$100", "255", "256", "1000", "$7FFF"])      # noqa: E731
        op = lambda: rnd.choice("++--**/")                                                                         # noqa: E731
        for d in range(depth):
            me = nm[1 + d]
            prev = nm[d] if d > 0 else nm[0]
            kind = rnd.randrange(5)
            if d == 0 and kind == 0:
                e = lit() + op() + lit()
            elif kind == 1:
                e = lit() + op() + prev
            elif kind == 2:
                e = prev + op() + nm[0]
            elif kind == 3 and d > 0:
                e = prev + op() + nm[rnd.randrange(1, d + 1)]
            else:
                e = prev + op() + lit()
            defs.append("%s EQU %s" % (me, e))
        last = nm[depth]
        uses = rnd.sample([("LDX", "imm", "#" + last), ("LDA", "mem", last), ("LDD", "extind", "[" + last + "]"), ("LDA", "idx", last + ",X"),
                           ("FDB", "fdb", last), ("LDX", "imm", "#" + last + "+1"), ("LDD", "imm", "#2*" + last), ("LDU", "mem", last + "-" + nm[0]),
                           ("LEAX", "idx", last + ",Y"), ("CMPX", "imm", "#" + nm[1]), ("FDB", "fdblist", "1," + last + "," + last + "+1")], rnd.choice([1, 2, 3]))
        body = [" %s %s" % (mn, t) for mn, _, t in uses]
        order = rnd.randrange(3)
        rnd.shuffle(defs) if rnd.random() < 0.5 else None
        if order == 0:
            lines = defs + body
            base = len(defs)
        elif order == 1:
            lines = body + defs
            base = 0
        else:
            cut = rnd.randrange(len(defs) + 1)
            lines = defs[:cut] + body + defs[cut:]
            base = cut
        if rnd.random() < 0.5:
            lines = [" ORG $0E00"] + lines
            base += 1
        yield {"lines": L(*lines), "tag": "equ-chain", "meta": {"uses": [(base + i, pos, last if pos == "fdblist" else t.lstrip("#").strip("[]").split(",")[0])
                                                                          for i, (mn, pos, t) in enumerate(uses)]}}
    # labels in EQU expressions: the symbol has the value of the expression; definition order does not matter
    for org in ("", " ORG $1000", " ORG $FF00"):
        for late in (False, True):
            for e in ("L+1", "L-1", "1+L", "L*2", "L/2", "M-L", "L+M", "L-300"):
                d = ["T EQU " + e]
                body = ["L NOP", " RMB 7", "M NOP"]
                lines = ([org] if org else []) + (body + d if late else d + body)
                yield {"lines": L(*lines), "tag": "equ-label", "meta": {"uses": []}}
    # cycles, self reference, undefined symbols: a diagnostic, whatever the order
    for lines in (["A EQU B+1", "B EQU A+1", " LDX #A"], ["A EQU B+1", "B EQU A+1", " NOP"], [" LDX #A", "B EQU A+1", "A EQU B+1"], ["A EQU A+1", " NOP"],
                  ["A EQU A+1", " LDA #A"], ["A EQU B+1", "B EQU C+1", "C EQU A*2", " FDB B"], ["A EQU Q+1", " NOP"], ["A EQU 1+Q", " LDA A"],
                  ["A EQU 1/0", " NOP"], ["Z EQU 0", "A EQU 5/Z", " NOP"], ["A EQU $FFFF+1", " NOP"], ["A EQU $FFFF*2", " LDX #A"], ["A EQU 0-32769", " NOP"]):
        yield {"lines": L(*lines), "tag": "equ-bad", "meta": {"uses": [], "reject": True}}
    for lines in (["A EQU 0-32768", " LDX #A"], ["A EQU 0-1", " FCB A", " FDB A"], ["A_B EQU 3", "C@D EQU A_B*2", "_X LDA #C@D", " LDB #A_B+1", " JMP _X"],
                  ["A EQU B", "B EQU 5", " LDA #A"]):
        yield {"lines": L(*lines), "tag": "equ-misc", "meta": {"uses": []}}


def fcc_cases(rnd, n=200):
    """FCC strings taken from the line as written: any delimiter, blanks / tabs / ';' / any printable character inside, and
    whatever follows the closing delimiter (comment with or without ';', further delimiter characters)"""
    PRINT = "".join(chr(c) for c in range(0x20, 0x7F))
    for _ in range(n):
        d = rnd.choice("\"'/|!.#$%&*+,-:<=>?@^_`~()[]{}Zq9")
        ln = rnd.choice([0, 1, 1, 2, 3, 5, 11, 40, 255])
        body = "".join(rnd.choice(PRINT if rnd.random() < 0.6 else "ab ;  ,\t;;' \"") for _ in range(ln))
        body = body.replace(d, "x")
        tail = rnd.choice(["", "", " comment", " ; c", ";c", "  ;; two", "\t; tab", " trailing 'quote' \"q\"", " ;" + d + "again" + d, " " + d, "   "])
        lab = rnd.choice(["MSG", "", "M_1", "@S"])
        ws = rnd.choice([" ", "  ", "\t", " \t "])
        mn = rnd.choice(["FCC", "FCC", "fcc", "Fcc"])
        yield {"lines": L("%s%s%s%s%s%s%s%s" % (lab, ws, mn, ws, d, body, d, tail), " NOP"), "tag": "fcc", "meta": {"mn": "FCC", "s": body, "d": d, "stmt": 0, "tail": tail}}
    for line in ("MSG FCC", "MSG FCC ", "MSG FCC \"", "MSG FCC \"abc", "MSG FCC abc", "MSG FCC a", " FCC 'it''s'", " FCC ;a;", " FCC ; x ;"):
        yield {"lines": L(line, " NOP"), "tag": "fcc-odd", "meta": {"mn": "FCCODD", "stmt": 0}}


def line_matrix(rnd, sample=None):
    """the line scanner on its own: label x blanks x mnemonic x blanks x operand x what follows - every combination (a product of
    small sets, sampled in the quick tier); each line is assembled as a one-statement program (after a label-defining line where
    the operand needs one) and compared field by field with the model through the printed listing"""
    LABELS = ["", "A", "AB1", "@", "A@B", "_", "A_1", "1A", "a", "A-B", "A.B"]
    WS = [" ", "\t", "   ", " \t "]
    MNS = ["NOP", "nop", "Nop", "LDA", "lda", "FCC", "fcc", "FCB", "JMP", "BRA", "EQU", "END", "NOPE", "", "LD A"]
    OPS = ["", "#1", "$10", "L", "L+1", ",X", "5,Y", "[L]", "/a b/", "/a;b/", "\"x\"", "'A", "1,2", "#$1;", "L;c", "A,B"]
    TAILS = ["", " ", ";c", " ;c", " c d", ";;c", " ; c ; d", "\t;", " ;", "  x  "]
    for lab in LABELS:
        for mn in MNS:
            for op in OPS:
                for tail in TAILS:
                    if sample is not None and rnd.random() > sample:
                        continue
                    w1, w2 = rnd.choice(WS), rnd.choice(WS)
                    line = lab + w1 + mn + (w2 + op if op or tail else "") + tail
                    yield {"lines": L("L RMB 2", line), "tag": "scan", "meta": {}}


def branch_sweep(rnd, thorough=False):
    """short/long branches and label,PCR operands at distances around the limits (C03, C13)"""
    D8 = [0, 1, 100, 124, 125, 126, 127, 128, 129, 130, 131, 200]
    shorts = [i.mnemonic for i in INSTRUCTIONS if i.is_short_branch]
    longs = [i.mnemonic for i in INSTRUCTIONS if i.is_long_branch]
    for mn in (shorts if thorough else shorts[:5] + ["BSR"]):
        for n in D8:
            yield {"lines": L(*([" %s L" % mn] + [" NOP"] * n + ["L NOP"])), "tag": "short-fwd", "meta": {"mn": mn, "stmt": 0, "target": n + 1, "k": 0}}
            m = max(n - 1, 0)
            yield {"lines": L(*(["L NOP"] + [" NOP"] * m + [" %s L" % mn])), "tag": "short-bwd", "meta": {"mn": mn, "stmt": m + 1, "target": 0, "k": 0}}
    for mn in (longs if thorough else ["LBRA", "LBEQ", "LBSR"]):
        for n in [0, 1, 127, 128, 200, 1000]:
            yield {"lines": L(*([" %s L" % mn] + [" NOP"] * n + ["L NOP"])), "tag": "long-fwd", "meta": {"mn": mn, "stmt": 0, "target": n + 1, "k": 0}}
            yield {"lines": L(*(["L NOP"] + [" NOP"] * n + [" %s L" % mn])), "tag": "long-bwd", "meta": {"mn": mn, "stmt": n + 1, "target": 0, "k": 0}}
        for n in [32700, 32764, 32768, 40000]:
            yield {"lines": L(" %s L" % mn, " RMB %d" % n, "L NOP"), "tag": "long-far", "meta": {"mn": mn, "stmt": 0, "target": 2, "k": 0}}
            yield {"lines": L("L NOP", " RMB %d" % n, " %s L" % mn), "tag": "long-far", "meta": {"mn": mn, "stmt": 2, "target": 0, "k": 0}}
    for mn in (("LDA", "LDY", "LEAX", "STS", "LDD") if thorough else ("LDA", "LDY", "LEAX")):
        for ind in (False, True):
            t = "[L,PCR]" if ind else "L,PCR"
            for n in list(range(110, 135)) + [0, 1, 50, 300]:
                yield {"lines": L(*([" %s %s" % (mn, t)] + [" NOP"] * n + ["L NOP"])), "tag": "pcr-fwd", "meta": {"mn": mn, "stmt": 0, "target": n + 1, "k": 0}}
                yield {"lines": L(*(["L NOP"] + [" NOP"] * n + [" %s %s" % (mn, t)])), "tag": "pcr-bwd", "meta": {"mn": mn, "stmt": n + 1, "target": 0, "k": 0}}
            yield {"lines": L(" %s L+3,PCR" % mn, " NOP", "L NOP", " NOP", " NOP", " NOP"), "tag": "pcr-k", "meta": {"mn": mn, "stmt": 0, "target": 2, "k": 3}}
            yield {"lines": L(" %s L-1,PCR" % mn, " NOP", "L NOP"), "tag": "pcr-k", "meta": {"mn": mn, "stmt": 0, "target": 2, "k": -1}}
    # label +- constant: the width must account for the constant as well
    for mn in (("LEAX", "LDY") if thorough else ("LEAX",)):
        for k in ((1, 2, 7, 12, -1, -12, 100, -100) if thorough else (12, -12, 2)):
            ks = "%+d" % k
            for n in (range(100, 145) if thorough else list(range(108, 140, 3)) + [126, 127, 128, 129]):
                yield {"lines": L(*([" %s L%s,PCR" % (mn, ks)] + [" NOP"] * n + ["L NOP"] + [" NOP"] * 20)), "tag": "pcr-k-fwd",
                       "meta": {"mn": mn, "stmt": 0, "target": n + 1, "k": k}}
                yield {"lines": L(*([" NOP"] * 20 + ["L NOP"] + [" NOP"] * n + [" %s L%s,PCR" % (mn, ks)])), "tag": "pcr-k-bwd",
                       "meta": {"mn": mn, "stmt": n + 21, "target": 20, "k": k}}
    # a statement referring to its own label (+- constant): the statement itself lies between source and target
    for mn in (("LDY", "LEAX", "LDA") if thorough else ("LDY", "LEAX")):
        for k in (list(range(118, 134)) + [0, 1, 50, 200, 300] if thorough else [0, 100, 122, 123, 124, 125, 126, 127, 128, 129, 200]):
            for sign in "-+":
                for ind in ((False, True) if thorough else (False,)):
                    t = "L%s%d,PCR" % (sign, k)
                    yield {"lines": L(" RMB 300", "L %s %s" % (mn, "[" + t + "]" if ind else t), " RMB 300"), "tag": "pcr-self",
                           "meta": {"mn": mn, "stmt": 1, "target": 1, "k": k if sign == "+" else -k}}
        yield {"lines": L("L %s L-125,PCR" % mn), "tag": "pcr-self", "meta": {"mn": mn, "stmt": 0, "target": 0, "k": -125}}
    # label +- label as PCR target: the second label's address moves the target
    for n in ((0, 1, 60, 100, 120, 125, 126, 127, 128, 130, 200) if thorough else (0, 100, 125, 128, 200)):
        yield {"lines": L(" RMB %d" % n, "M NOP", "L LEAX L+M,PCR"), "tag": "pcr-ll", "meta": {"mn": "LEAX", "stmt": 2, "target": 2, "k": 0}}
        yield {"lines": L(" RMB %d" % n, "M NOP", " NOP", "L NOP", " LEAX L-M,PCR"), "tag": "pcr-ll", "meta": {"mn": "LEAX", "stmt": 4, "target": 3, "k": 0}}
        yield {"lines": L("M NOP", " LDY M-L,PCR", " RMB %d" % n, "L NOP"), "tag": "pcr-ll", "meta": {"mn": "LDY", "stmt": 1, "target": 0, "k": 0}}
    for n in [32700, 32760, 32766, 32770, 40000]:
        yield {"lines": L(" LEAX L,PCR", " RMB %d" % n, "L NOP"), "tag": "pcr-far", "meta": {"mn": "LEAX", "stmt": 0, "target": 2, "k": 0}}
        yield {"lines": L("L NOP", " RMB %d" % n, " LEAX L,PCR"), "tag": "pcr-far", "meta": {"mn": "LEAX", "stmt": 2, "target": 0, "k": 0}}


def pcr_interacting(rnd, n=200):
    """several not-yet-sized PCR statements between source and target whose sizes depend on each other"""
    for _ in range(n):
        k = rnd.choice([2, 2, 3, 4])
        total = rnd.choice([118, 120, 122, 124, 126, 128, 130, 132]) + rnd.randrange(-1, 2)
        lines = []
        labels = ["L%d" % i for i in range(k)]
        pos = sorted(rnd.sample(range(total), k))
        refs = []
        for i in range(total):
            lab = ""
            for j, p in enumerate(pos):
                if p == i:
                    lab = labels[j]
            if rnd.random() < 0.04 or len(refs) < k and rnd.random() < 0.05:
                tgt = rnd.choice(labels)
                mn = rnd.choice(["LDA", "LEAX", "LDY", "STS"])
                t = "[%s,PCR]" % tgt if rnd.random() < 0.3 else "%s,PCR" % tgt
                lines.append("%s %s %s" % (lab, mn, t))
                refs.append((len(lines) - 1, labels.index(tgt)))
            else:
                lines.append("%s NOP" % lab)
        label_stmt = {}
        for idx, l in enumerate(lines):
            for j, lb in enumerate(labels):
                if l.startswith(lb + " "):
                    label_stmt[j] = idx
        if len(label_stmt) < k:
            continue
        yield {"lines": L(*lines), "tag": "pcr-multi", "meta": {"refs": [(s, label_stmt[t]) for s, t in refs]}}


def pcr_runs(rnd, thorough=False):
    """a run of consecutive label,PCR statements (position-independent code style), each addressing its own label; the
    labels lie `stride` bytes apart after `gap` filler bytes, or before the run (backward), so that all statements of
    the run are undecided at once and sit around the 8/16-bit boundary together"""
    MNS = ["LDA", "ADDA", "STA", "LDX", "LEAY", "STX", "LDY", "CMPA", "LDD"]
    gaps = range(100, 131) if thorough else list(range(105, 127, 2)) + [113, 120, 123]
    for k in ((2, 3, 4, 5, 6, 7, 8, 9) if thorough else (2, 5, 6, 8)):
        for stride in ((1, 2, 3) if thorough else (2,)):
            for gap in gaps:
                for ind in ((False, True) if thorough else (False,)):
                    run_ = [" %s %s" % (MNS[i % len(MNS)], ("[V%d,PCR]" if ind else "V%d,PCR") % i) for i in range(k)]
                    vars_ = []
                    for i in range(k):
                        vars_.append("V%d NOP" % i)
                        vars_ += [" NOP"] * (stride - 1)
                    fwd = run_ + [" RMB %d" % gap] + vars_
                    # statement indices: run 0..k-1, RMB at k, V_i at k+1+i*stride
                    yield {"lines": L(*fwd), "tag": "pcr-run", "meta": {"refs": [(i, k + 1 + i * stride) for i in range(k)]}}
                    bwd = vars_ + [" RMB %d" % gap] + run_
                    yield {"lines": L(*bwd), "tag": "pcr-run", "meta": {"refs": [(k * stride + 1 + i, i * stride) for i in range(k)]}}


def pcr_order(thorough=False):
    """pass-order cases of the size loop: X (forward, spans Y) is undecided in the first pass and decidable in the second
    once Y is sized; Z (backward, spans X) comes last and stays undecided in the first pass. The loop must go on to a
    second pass - not break the tie early - or X gets the 16-bit form although 8 bits suffice. Returns (base, suffix)."""
    for f in (range(112, 124) if thorough else (116, 117, 118, 119, 120)):
        for mnx, mnz in ((("LEAX", "LEAU"), ("LDA", "LDX"), ("LDY", "LEAU")) if thorough else (("LEAX", "LEAU"), ("LDY", "LDA"))):
            for pad in (0, 1, 2):
                base = ["T0 NOP"] + [" NOP"] * pad + [" %s T1,PCR" % mnx, " LEAY T2,PCR", "T2 RMB %d" % f, "T1 NOP"]
                yield base, [" %s T0,PCR" % mnz, " NOP"]


MN_ALL = [i.mnemonic for i in INSTRUCTIONS]
OPERANDS = ["", "#$10", "#5", "$10", "$1234", "<$10", ">$10", "[$1234]", ",X", ",Y+", ",--U", "[,S++]", "5,X", "-5,Y", "200,U", "$1234,S", "A,X", "[D,Y]",
            "L1", "L2", "L1+1", "L2-2", "#L1", "[L2]", "L1,PCR", "[L2,PCR]", "5,PCR", "C1", "#C1", "C1,X", "[C1]", "C2", "#C2+1",
            "A,B,X", "X,Y", "A,B", "U,S", "1,2,3", "$1234,$5", "\"HI\"", "'A", "C1*2", "C2/0", "UNDEF", "#UNDEF"]


def random_programs(rnd, n, valid_bias=0.8):
    """grammar-directed programs: labels before/after use, EQU, ORG anywhere, data, branches, PCR"""
    for _ in range(n):
        lines = []
        if rnd.random() < 0.3:
            lines.append(" NAM %s" % rnd.choice(["PROG", "hello", "LONGERNAME1", "A"]))
        lines.append("C1 EQU %s" % rnd.choice(["5", "$10", "$0012", "$1234", "%00001111", "300", "'A"]))
        if rnd.random() < 0.6:
            lines.append(" ORG %s" % rnd.choice(["$0E00", "$10", "$100", "0", "$FF00", "$3F00"]))
        body = rnd.randrange(1, 25)
        l1 = rnd.randrange(body)
        l2 = rnd.randrange(body)
        for i in range(body):
            lab = "L1" if i == l1 else ("L2" if i == l2 and l2 != l1 else "")
            mn = rnd.choice(MN_ALL) if rnd.random() < 0.6 else rnd.choice(["LDA", "STA", "LDX", "LEAX", "BRA", "BNE", "LBSR", "JSR", "FCB", "FDB", "RMB", "FCC", "NOP"])
            op = rnd.choice(OPERANDS)
            if rnd.random() < valid_bias:
                ins = next(x for x in INSTRUCTIONS if x.mnemonic == mn)
                if ins.is_short_branch or ins.is_long_branch:
                    op = rnd.choice(["L1", "L2"])
                elif ins.is_special:
                    op = rnd.choice(["A,B", "X,Y"]) if mn in ("TFR", "EXG") else rnd.choice(["A,B,X", "CC", "D,Y,PC"])
                elif mn == "FCC":
                    op = rnd.choice(["\"HI THERE\"", "'x'", "/A B/"])
                elif mn in ("FCB", "FDB"):
                    op = rnd.choice(["1", "1,2,3", "$FF", "C1", "$12" if mn == "FCB" else "$1234", "1,C1", "C1,C2" if mn == "FCB" else "L1,L2,C1+1", "C1" if mn == "FCB" else "L1"])
                elif mn == "RMB":
                    op = rnd.choice(["1", "4", "100"])
                elif mn in ("EQU", "ORG", "INCLUDE", "END", "NAM", "SETDP"):
                    mn, op = "NOP", ""
                else:
                    cands = []
                    m = ins.mode
                    if m.inh is not None:
                        cands += [""] * 3
                    if m.imm is not None:
                        cands += ["#$10", "#5", "#C2", "#%00001111"] + (["#$1234", "#L1", "#L2+1"] if ins.is_16_bit else [])
                    if m.dir is not None or m.ext is not None:
                        cands += ["$10", "$1234", "<$10", ">$1234", "L1", "L2", "C1", "L1+1", "L2-2", "4660"]
                    if m.ind is not None:
                        cands += [",X", ",Y+", ",--U", "[,S++]", "5,X", "-5,Y", "200,U", "$1234,S", "A,X", "[D,Y]", "[$1234]", "[L2]",
                                  "L1,PCR", "[L2,PCR]", "L2+1,PCR", "[B,U]", ",S", "100,Y"]
                    op = rnd.choice(cands) if cands else ""
            elif mn == "INCLUDE":
                mn = "NOP"
            lines.append("%s %s %s" % (lab, mn, op) + (rnd.choice(["", " ; note", " text"]) if rnd.random() < 0.2 else ""))
        if "L2" not in "".join(l.split(" ")[0] for l in lines):
            lines.append("L2 NOP")
        if rnd.random() < 0.3:
            lines.append("C2 EQU $%X" % rnd.choice([0, 1, 0xFF, 0x100, 0xFFFF]))
        else:
            lines.insert(1, "C2 EQU %d" % rnd.choice([0, 1, 255, 256, 65535]))
        lines.append(rnd.choice([" END", " END L1", ""]))
        yield {"lines": L(*lines), "tag": "random", "meta": {}}


SRC_ALPHA = "ABXYUSDPCRL019$#<>[],+-*/%' \";.@_=\t"


def mutate_line(rnd, l):
    k = rnd.randrange(8)
    if k == 0:
        i = rnd.randrange(len(l) + 1)
        return l[:i] + rnd.choice(SRC_ALPHA) + l[i:]
    if k == 1 and l:
        i = rnd.randrange(len(l))
        return l[:i] + l[i + 1:]
    if k == 2 and l:
        i = rnd.randrange(len(l))
        return l[:i] + rnd.choice(SRC_ALPHA) + l[i + 1:]
    if k == 3:
        f = l.split()
        if len(f) > 1:
            f.pop(rnd.randrange(len(f)))
            return ("        " + " ".join(f)) if l.startswith(" ") else " ".join(f)
    if k == 4:
        f = l.split()
        return l + " " + (f[-1] if f else "")
    if k == 5:
        return l.rstrip()[:rnd.randrange(0, len(l) + 1)]
    if k == 6:
        return "".join(rnd.choice(SRC_ALPHA) for _ in range(rnd.randrange(1, 25)))
    f = l.split()
    return l.replace(f[-1], rnd.choice(OPERANDS)) if f else l


README_PROG = ["        NAM     HELLO", "CHROUT  EQU     $A30A", "        ORG     $0E00", "START   JSR     $A928", "        LDX     #MESSAGE",
               "PRINT   LDA     ,X+", "        CMPA    #0", "        BEQ     FINISH", "        JSR     CHROUT", "        BRA     PRINT",
               "MESSAGE FCC     \"HELLO WORLD\"", "        FDB     $0", "FINISH  JSR     [CHROUT]", "        LEAX    MESSAGE,PCR",
               "        LDD     5,Y", "        PSHS    A,B,X", "        TFR     X,Y", "        FCB     1,2,3", "        RMB     4",
               "        NEG     <$10", "        LDA     C,X", "C       EQU     3", "        SWI", "        END     START"]


def mutations(rnd, n):
    for _ in range(n):
        prog = list(README_PROG)
        for _ in range(rnd.choice([1, 1, 1, 2, 3])):
            i = rnd.randrange(len(prog))
            prog[i] = mutate_line(rnd, prog[i])
        yield {"lines": L(*prog), "tag": "mutation", "meta": {}}


def random_lines(rnd, n):
    for _ in range(n):
        k = rnd.choice([1, 1, 2, 3, 6])
        lines = ["".join(rnd.choice(SRC_ALPHA + "NOPLDA   ") for _ in range(rnd.randrange(0, 30))) for _ in range(k)]
        yield {"lines": L(*lines), "tag": "random-lines", "meta": {}}


def include_cases(rnd, n):
    """a program split at statement boundaries into an including file and 1..3 included files, nested to depth 3"""
    for _ in range(n):
        prog = next(iter(random_programs(rnd, 1, valid_bias=0.97)))["lines"]
        prog = [l for l in prog if l.strip()]
        if len(prog) < 4:
            continue
        depth = rnd.choice([1, 1, 2, 3])
        files = {}
        cur = list(prog)
        flat = list(prog)
        names = ["inc%d.asm" % i for i in range(depth)]
        # carve nested segments: file i includes file i+1
        lo = rnd.randrange(0, len(cur) - 1)
        hi = rnd.randrange(lo + 1, len(cur) + 1)
        main = cur[:lo] + [" INCLUDE %s\n" % names[0]] + cur[hi:]
        seg = cur[lo:hi]
        for d in range(depth):
            if d + 1 < depth and len(seg) >= 2:
                a = rnd.randrange(0, len(seg) - 1)
                b = rnd.randrange(a + 1, len(seg) + 1)
                files[names[d]] = seg[:a] + [" INCLUDE %s\n" % names[d + 1]] + seg[b:]
                seg = seg[a:b]
            else:
                files[names[d]] = seg
                break
        yield {"lines": main, "files": files, "tag": "include", "meta": {"flat": flat}}
    # the same (label-free) file included twice, directly and through another include
    for body in (L(" NOP", " CLRA", " FCB 1,2,3"), L(" LDA #5", " PSHS A,B", " LEAX 2,X"), L(" JMP DONE", " FDB $1234")):
        main = L(" ORG $0E00", "START NOP", " INCLUDE rep.asm", " LDX #DONE", " INCLUDE rep.asm", "DONE RTS", " JMP DONE")
        flat = main[:2] + body + main[3:4] + body + main[5:]
        yield {"lines": main, "files": {"rep.asm": body}, "tag": "include", "meta": {"flat": flat}}
        main2 = L(" ORG $0E00", "START NOP", " INCLUDE rep.asm", " INCLUDE outer.asm", "DONE RTS", " JMP DONE")
        flat2 = main2[:2] + body + L(" TFR X,Y") + body + main2[4:]
        yield {"lines": main2, "files": {"rep.asm": body, "outer.asm": L(" TFR X,Y", " INCLUDE rep.asm")}, "tag": "include", "meta": {"flat": flat2}}
    # an included file whose first statement is itself an INCLUDE / a comment-only include followed by an INCLUDE
    yield {"lines": L(" ORG $100", " INCLUDE a.asm", "E RTS"), "files": {"a.asm": L(" INCLUDE b.asm", " CLRA"), "b.asm": L("B1 LDB #$10", " LBRA E")},
           "tag": "include", "meta": {"flat": L(" ORG $100", "B1 LDB #$10", " LBRA E", " CLRA", "E RTS")}}
    yield {"lines": L(" ORG $100", " INCLUDE c.asm", " INCLUDE b.asm", "E RTS"), "files": {"c.asm": L("; only a comment", ""), "b.asm": L("B1 LDB #$10", " LBRA E")},
           "tag": "include", "meta": {"flat": L(" ORG $100", "B1 LDB #$10", " LBRA E", "E RTS")}}
    # include files named with a directory component, nested: every name is resolved from the working directory, as written
    body = L(" ORG $0E00", "START LDX #MSG", " INCLUDE lib/mid.asm", " BRA START", "MSG FCC /HI/")
    yield {"lines": body, "files": {"lib/mid.asm": L(" LDA ,X+", " INCLUDE lib/io/deep.asm", " CLRB"), "lib/io/deep.asm": L("OUT JSR $A002", " LEAY MSG,PCR")},
           "tag": "include", "meta": {"flat": body[:2] + L(" LDA ,X+", "OUT JSR $A002", " LEAY MSG,PCR", " CLRB") + body[3:]}}
    yield {"lines": L(" INCLUDE lib/a.asm", " NOP"), "files": {"lib/a.asm": L(" INCLUDE lib/b.asm"), "lib/b.asm": L("B1 CLRA"), "b.asm": L("B1 COMA"),
                                                              "lib/lib/b.asm": L("B1 NEGA")},
           "tag": "include", "meta": {"flat": L("B1 CLRA", " NOP")}}
    yield {"lines": L(" INCLUDE lib/a.asm", " NOP"), "files": {"lib/a.asm": L(" INCLUDE b.asm"), "lib/b.asm": L("B1 CLRA"), "b.asm": L("B1 COMA")},
           "tag": "include", "meta": {"flat": L("B1 COMA", " NOP")}}
    # missing file and cycles
    yield {"lines": L(" NOP", " INCLUDE nosuch.asm"), "files": {"other.asm": L(" NOP")}, "tag": "include-missing", "meta": {}}
    yield {"lines": L(" INCLUDE a.asm"), "files": {"a.asm": L(" NOP", " INCLUDE a.asm")}, "tag": "include-cycle", "meta": {}}
    yield {"lines": L(" INCLUDE a.asm"), "files": {"a.asm": L(" INCLUDE b.asm"), "b.asm": L(" INCLUDE a.asm")}, "tag": "include-cycle", "meta": {}}


def stress_cases(rnd):
    """inputs that used to end in internal errors (kept as a corpus-like stream for C13), and their neighbours"""
    L_ = L
    progs = [
        [" ORG $FFFF", " NOP", " NOP"], [" ORG $FFFE", " LDX #1"], [" ORG $FFF0", " RMB 16"], [" ORG $FFF0", " RMB 17"], [" ORG $FFF0", " FCC /0123456789ABCDEF0/"],
        [" LBRA L", " RMB 40000", " ORG $0", " RMB 40000", "L NOP"], ["L NOP", " RMB 40000", " ORG $0", " RMB 40000", " LBRA L"],
        [" LBSR L", " RMB 65535", "L NOP"], [" ORG $8000", "L NOP", " RMB 32000", " LBRA L"],
        ["START NOP", " LDX START/0"], ["START NOP", " LDX START*5"], [" ORG $4000", "S NOP", " LDX S*5"], ["S NOP", " LEAX S/0,PCR"], ["S NOP", " LEAX S*3,PCR"],
        ["Z EQU 0", " LDA #5/Z"], [" LDA #5/0"], ["Z EQU 0", " LDX $4000/Z"], [" LDA $10/0,X"], ["S NOP", " LDA S-20000"], [" ORG $10", "S NOP", " LDX #S-17"],
        ["MSG FCC \"A\tB\"", " NOP"], ["MSG FCC \"\t\"", " NOP"], ["MSG FCC /\t\t\t/"], ["R EQU 1+2", " LDX #R"], ["R EQU Q", "Q EQU 5", " LDA R"],
        ["L NOP", " LDA L,X"], ["L NOP", " LDA [L,Y]"], ["L NOP", " LDA L+1,X"], [" FCB 1,300"], [" FCB 1,-129"], [" FDB 1,70000"], [" FCB"], [" FDB"], [" RMB"], [" ORG"],
        [" END"], [" NAM"], [" SETDP"], ["X EQU"], [" BRA $12345"], [" LDA []"], [" LDA [,]"], [" FCC x"], [" FCC"], [" INCLUDE"], [" TFR"], [" PSHS"],
        ["HERE BRA HERE"], ["HERE LBRA HERE"], ["H LDA H,PCR"], ["H LEAX [H,PCR]"], [" BRA 5"], ["C EQU 5", " BRA C"],
    ]
    for p in progs:
        yield {"lines": L_(*p), "tag": "stress", "meta": {}}
