"""
harness/gen_theorems.py — rebuild harness/theorems_asm.json: for every property in the file, the fully qualified
names of all `theorem`s of its Props modules (namespace tracking; `private`/`protected` theorems excluded).
The committed JSON is curated (helper lemmas of a Props file may be left out); `--check` shows the difference to the
sources, `--add <pid> <module>` appends a module's theorems, no argument regenerates everything.
Run after integrating new proof files; the registry reads the JSON, the prover audits every name with `#print axioms`.
"""
import json
import os
import re
import sys

HERE = os.path.dirname(os.path.abspath(__file__))
LEAN = os.path.join(os.path.dirname(HERE), "lean")


def theorems_of(module):
    path = os.path.join(LEAN, *module.split(".")) + ".lean"
    ns = []
    out = []
    in_comment = 0
    for line in open(path, encoding="utf-8"):
        # block comments (no nesting subtleties needed: theorems never start inside a comment on the same line)
        if in_comment:
            in_comment += line.count("/-") - line.count("-/")
            in_comment = max(in_comment, 0)
            continue
        st = line.strip()
        if st.startswith("/-"):
            in_comment = line.count("/-") - line.count("-/")
            in_comment = max(in_comment, 0)
            continue
        m = re.match(r"^namespace\s+(\S+)", line)
        if m:
            ns.append(m.group(1))
            continue
        m = re.match(r"^end\s+(\S+)", line)
        if m and ns and ns[-1] == m.group(1):
            ns.pop()
            continue
        m = re.match(r"^(?:@\[[^\]]*\]\s*)?theorem\s+(\S+)", line)
        if m:
            name = m.group(1)
            if name.startswith("_root_."):
                out.append(name[len("_root_."):])
            else:
                out.append(".".join(ns + [name]))
    return out


def main():
    sys.path.insert(0, HERE)
    jpath = os.path.join(HERE, "theorems_asm.json")
    cur = json.load(open(jpath))
    import registry
    new = {}
    for pid in cur:
        names = []
        for mod in registry.REGISTRY[pid]["modules"]:
            if ".Props." in mod:
                for n in theorems_of(mod):
                    if n not in names:
                        names.append(n)
        new[pid] = names
    if "--add" in sys.argv:                      # --add <pid> <module>: append that module's theorems to the curated list
        i = sys.argv.index("--add")
        pid, mod = sys.argv[i + 1], sys.argv[i + 2]
        for n in theorems_of(mod):
            if n not in cur[pid]:
                cur[pid].append(n)
        json.dump(cur, open(jpath, "w"), indent=1)
        print(pid, len(cur[pid]))
        return
    if "--check" in sys.argv:
        bad = 0
        for pid in cur:
            a, b = set(cur[pid]), set(new[pid])
            if a != b:
                bad = 1
                print(pid, "only in json:", sorted(a - b), "only in source:", sorted(b - a))
        sys.exit(bad)
    json.dump(new, open(jpath, "w"), indent=1)
    print({k: len(v) for k, v in new.items()})


if __name__ == "__main__":
    main()
