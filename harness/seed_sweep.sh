#!/bin/bash
# development helper: run every claimed check for a range of seeds and list everything that is not a PASS
# usage: seed_sweep.sh <first-seed> <last-seed> [tier] [props...]
A=$1; B=$2; TIER=${3:-quick}; shift 3
PROPS=${@:-C01 C02 C03 C04 C05 C06 C07 C08 C09 C10 C11 C12 C13 C14 C15 C16 C17 C18 C19}
cd /verif
for s in $(seq $A $B); do
  for p in $PROPS; do
    OUT=$(VERIF_SEED=$s ./check $p --tier $TIER 2>&1); RC=$?
    if [ $RC -ne 0 ]; then echo "seed=$s $p rc=$RC"; echo "$OUT" | grep -E "^(VIOLATION|FAIL|INFRA)" | head -3; cp -r evidence/replay /tmp/replay-$s-$p 2>/dev/null; fi
  done
done
echo "sweep $A..$B done"
