#!/venv/bin/python
"""writes /verif/MANIFEST.json from harness/registry.py (run after editing the registry)"""
import json
import os
import sys

sys.path.insert(0, os.path.dirname(os.path.abspath(__file__)))
from registry import REGISTRY, MANIFEST_TEXT, NOT_APPLICABLE   # noqa: E402

VERIF = os.path.dirname(os.path.dirname(os.path.abspath(__file__)))
ALL = ["C%02d" % i for i in range(1, 20)]

checks = []
for pid in ALL:
    if pid not in REGISTRY or REGISTRY[pid].get("claimed") is False:
        continue
    r = REGISTRY[pid]
    t = MANIFEST_TEXT[pid]
    checks.append({
        "property_id": pid,
        "quick_cmd": "./check {} --tier quick".format(pid),
        "thorough_cmd": "./check {} --tier thorough".format(pid),
        "evidence_file": "evidence/{}.json".format(pid),
        "replay_cmd_template": "./check {} --replay {{path}}".format(pid),
        "engine": "lean4-proof+correspondence",
        "level_claimed": {"category": r["level"], "text": t["text"], "design_ref": t["design_ref"]},
        "level_note": t["note"],
        "technique": t["technique"],
    })
na = [{"property_id": p, "reason": NOT_APPLICABLE[p]} for p in ALL if p not in REGISTRY or REGISTRY[p].get("claimed") is False]
doc = {
    "version": 1,
    "setup_cmd": "cd lean && lake build CoCoVerif driver",
    "hooks": {
        "guard": "COCOASM_VERIF",
        "enable": "no hooks are needed: the harness imports /repo's modules in-process and runs the two CLIs as subprocesses; COCOASM_VERIF is reserved and unused",
        "baseline_off_cmd": "cd /repo && /venv/bin/python -m pytest -q -p no:cacheprovider",
        "source_commits": [],
        "add_only": True,
    },
    "engines": [{
        "name": "lean4-proof+correspondence", "path": "lean/ + harness/",
        "serves_properties": [c["property_id"] for c in checks],
        "kind_free_text": "Lean 4 theorems about a hand-written bug-compatible model + specs; model tied to /repo on every run by regenerated tables and by JSON-lines differential runs of the compiled model driver against the real classes; failing-input search with the Lean specs as oracle",
    }],
    "checks": checks,
    "not_applicable": na,
    "notes": "See DESIGN.md. Fix commits in /repo are listed in known_findings.json ('fixed:' lines).",
}
with open(os.path.join(VERIF, "MANIFEST.json"), "w") as fh:
    json.dump(doc, fh, indent=1)
print("wrote MANIFEST.json with", len(checks), "checks,", len(na), "not claimed")
