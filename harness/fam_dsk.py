"""
harness/fam_dsk.py — disk streams (properties C07, C08, C15; reused by C09, C16).

Streams
  dsk.write   impl DiskFile(order).add_files(fs) image  vs  model Dsk.addFiles (hash of the whole image, FAT sector, directory)
              + oracle spec.fsck / spec.dskread on the impl image (C08), free-space accounting (C15)
  dsk.rt      impl list(image written)   vs model Dsk.list   + oracle == norm(fs)                     (C07 a)
  dsk.frag    impl list(fragmented image built from the format description) vs model + oracle == its files (C07 b)
  dsk.corrupt impl list(damaged image)   vs model (outcome kind, files when ok)
  dsk.geom    calculate_* and seek_granule, exhaustive (all 65,536 lengths x 3 kinds; granules 0..67)
  dsk.fill    fill-to-exhaustion histories (slot exhaustion, granule exhaustion, mixtures)           (C15)
"""
import random
import re

from common import drive, hexs, repo_import_path
from framework import guarded

repo_import_path()
from cocoasm.virtualfiles.disk import DiskFile, DiskConstants, MLPreamble, BasicPreamble, ASCIIPreamble, Postamble   # noqa: E402
from cocoasm.virtualfiles.coco_file import CoCoFile                # noqa: E402
from cocoasm.virtualfiles.virtual_file_exceptions import VirtualFileValidationError   # noqa: E402
from cocoasm.values import NumericValue, NoneValue                 # noqa: E402

SIZE = 161280
G = 2304
FAT = 78592
DIR = 78848
NAME_ALPHA = "ABCXYZabcxyz0189"
ADDRS = [0, 1, 0xFF, 0x100, 0x0E00, 0x3F00, 0x7FFF, 0x8000, 0xFFFE, 0xFFFF]


def goff(g):
    return G * g + (4608 if g >= 34 else 0)


def boundary_lens(thorough=False):
    ls = {0, 1, 2, 3, 4, 5, 6, 250, 251, 255, 256, 257, 65535}
    for k in (1, 2, 3) + ((9, 27, 28) if thorough else ()):
        for d in range(-12, 12):
            v = k * G + d
            if 0 <= v <= 65535:
                ls.add(v)
    for k in (1, 2, 9, 10):
        for d in (-11, -10, -6, -5, -4, -3, -1, 0, 1):
            ls.add(k * 256 + d)
    return sorted(ls)


def hash64(buf):
    h = 14695981039346656037
    for b in buf:
        h = (h * 1099511628211 + b + 1) & 0xFFFFFFFFFFFFFFFF
    return h


def patches(buf):
    b = bytes(buf)
    return {"size": len(b), "fill": 255, "patches": [[m.start(), b[m.start():m.end()].hex()] for m in re.finditer(rb"[^\xff]+", b)]}


def rdata(rnd, n):
    k = rnd.random()
    if k < 0.25:
        return [rnd.choice([0xFF, 0x00, 0xC1, 0x99]) for _ in range(n)]
    if k < 0.35:
        return [0xFF] * n
    return [rnd.randrange(256) for _ in range(n)]


KINDS = [(2, 0), (0, 0), (1, 0xFF), (3, 0xFF), (1, 0), (2, 0xFF)]


def gen_file(rnd, lens, maxlen=65535):
    name = "".join(rnd.choice(NAME_ALPHA) for _ in range(rnd.choice([1, 2, 5, 8, 8, 9, 12])))
    ext = "".join(rnd.choice("BINASbin12") for _ in range(rnd.choice([0, 1, 3, 3, 3])))
    ftype, dtype = rnd.choice(KINDS)
    n = rnd.choice(lens) if rnd.random() < 0.8 else rnd.randrange(0, 7000)
    n = min(n, maxlen)
    ml = ftype == 2
    return {"name": [ord(c) for c in name], "ext": [ord(c) for c in ext], "ftype": ftype, "dtype": dtype, "gaps": 0,
            "load": (rnd.choice(ADDRS) if rnd.random() < 0.6 else rnd.randrange(65536)) if ml else 0,
            "exec": (rnd.choice(ADDRS) if rnd.random() < 0.6 else rnd.randrange(65536)) if ml else 0,
            "data": hexs(rdata(rnd, n))}


def to_coco(f):
    return CoCoFile(name="".join(chr(c) for c in f["name"]), extension="".join(chr(c) for c in f["ext"]),
                    type=NumericValue(f["ftype"]), data_type=NumericValue(f["dtype"]),
                    load_addr=NumericValue(f["load"]), exec_addr=NumericValue(f["exec"]),
                    data=list(bytes.fromhex(f["data"])))


def of_coco(c):
    return {"name": [ord(ch) for ch in c.name], "ext": [ord(ch) for ch in c.extension], "ftype": c.type.int,
            "dtype": c.data_type.int, "gaps": c.gaps.int, "load": c.load_addr.int, "exec": c.exec_addr.int,
            "data": hexs(c.data)}


FIELDS = ("name", "ext", "ftype", "dtype", "load", "exec", "data")


def proj(f):
    return {k: f[k] for k in FIELDS}


def up(c):
    return c - 32 if 97 <= c <= 122 else c


def pad_upper(n, s):
    return [0x20 if up(c) == 0 else up(c) for c in (list(s)[:n] + [0x20] * n)[:n]]


def is_ml(f):
    return f["ftype"] == 2


def norm(f):
    """what listing returns for a stored file (name upper-cased, cut to 8, spaces stripped)"""
    return {"name": [c for c in pad_upper(8, f["name"]) if c != 0x20], "ext": pad_upper(3, f["ext"]), "ftype": f["ftype"],
            "dtype": f["dtype"], "load": f["load"] if is_ml(f) else 0, "exec": f["exec"] if is_ml(f) else 0, "data": f["data"]}


def norm_spec(f):
    """what the reference reader returns for a stored file (8-byte padded name)"""
    g = norm(f)
    g["name"] = pad_upper(8, f["name"])
    return g


def stream_len(f):
    n = len(f["data"]) // 2
    return n + (10 if is_ml(f) else 0 if f["dtype"] == 0xFF else 3)


def granules_needed(f):
    return stream_len(f) // G + 1


def impl_write(order, fs, base=None):
    def go():
        d = DiskFile(buffer=list(base), granule_fill_order=order) if base is not None else DiskFile(granule_fill_order=order)
        d.add_files([to_coco(f) for f in fs])
        return list(d.get_buffer())
    return guarded(go, 60, diag=(VirtualFileValidationError,))


def impl_list(buf):
    def go():
        return [of_coco(c) for c in DiskFile(buffer=list(buf)).list_files()]
    return guarded(go, 30, diag=(VirtualFileValidationError,))


def mkind(rep):
    k = rep.get("k")
    return "timeout" if k == "diverged" else k


def gen_order(rnd):
    k = rnd.random()
    if k < 0.4:
        return None
    if k < 0.55:
        return list(range(68))
    if k < 0.7:
        return list(range(67, -1, -1))
    return rnd.sample(range(68), 68)


def frag_image(rnd, fs):
    """a well-formed Disk BASIC image built from the format description: random disjoint chains in any order,
    random directory slots (in ascending slot order = listing order)"""
    img = [0xFF] * SIZE
    free = list(range(68))
    rnd.shuffle(free)
    slots = sorted(rnd.sample(range(72), len(fs)))
    files = []
    for f, slot in zip(fs, slots):
        data = list(bytes.fromhex(f["data"]))
        n = len(data)
        if is_ml(f):
            stream = [0, n >> 8, n & 255, f["load"] >> 8, f["load"] & 255] + data + [0xFF, 0, 0, f["exec"] >> 8, f["exec"] & 255]
        elif f["dtype"] == 0xFF:
            stream = data
        else:
            stream = [0xFF, n >> 8, n & 255] + data
        L = len(stream)
        # granules: ceil, but an exact multiple may or may not get an extra (empty, 1 sector 0 bytes) granule
        ng = max(1, (L + G - 1) // G)
        if L % G == 0 and (L == 0 or rnd.random() < 0.5):
            ng = L // G + 1
        if ng > len(free):
            break
        chain = [free.pop() for _ in range(ng)]
        last = L - (ng - 1) * G
        if last == 0:
            sectors, lastbytes = 1, 0
            if rnd.random() < 0.5:
                # "no sector of the last granule in use" ($C0): legal Disk BASIC, the bytes-in-last-sector field is then irrelevant
                sectors, lastbytes = 0, rnd.choice([0, 0, 17, 255, 256])
        else:
            sectors = (last + 255) // 256
            lastbytes = last - (sectors - 1) * 256        # 1..256
            if lastbytes == 256 and rnd.random() < 0.5 and sectors < 9:
                sectors, lastbytes = sectors + 1, 0
        for i, g in enumerate(chain):
            piece = stream[i * G:(i + 1) * G]
            # bytes of the last granule past the stream: anything (old data)
            if len(piece) < G and rnd.random() < 0.5:
                piece = piece + [rnd.randrange(256) for _ in range(G - len(piece))]
            img[goff(g):goff(g) + len(piece)] = piece
            img[FAT + g] = chain[i + 1] if i + 1 < ng else 0xC0 + sectors
        ent = pad_upper(8, f["name"]) + pad_upper(3, f["ext"]) + [f["ftype"], f["dtype"], chain[0], lastbytes >> 8, lastbytes & 255] + [0] * 16
        img[DIR + 32 * slot:DIR + 32 * slot + 32] = ent
        files.append(f)
    # deleted entries in some other slots
    for s in range(72):
        if s not in slots and rnd.random() < 0.1:
            img[DIR + 32 * s] = 0x00
    return img, files


def corrupt(rnd, img):
    img = list(img)
    k = rnd.random()
    if k < 0.1:
        return img[:rnd.choice([0, 1, 78592, 100000, SIZE - 1])]
    n = rnd.choice([1, 1, 2, 4])
    for _ in range(n):
        where = rnd.random()
        if where < 0.45:
            i = FAT + rnd.randrange(68)
            img[i] = rnd.choice([0xFF, 0xC0, 0xC1, 0xC9, 0xCA, 0xDF, 0x99, 68, 67, 0, rnd.randrange(256)])
        elif where < 0.85:
            i = DIR + 32 * rnd.randrange(0, 4) + rnd.choice([0, 1, 8, 11, 12, 13, 14, 15])
            img[i] = rnd.choice([0, 0xFF, 2, 1, 0x80, 0xC3, 67, 68, 200, rnd.randrange(256)])
        else:
            g = rnd.randrange(68)
            i = goff(g) + rnd.choice([0, 1, 2, 3, 4, 5, 2303])
            img[i] = rnd.choice([0, 0xFF, 1, rnd.randrange(256)])
    return img


def run_streams(run, want, counts, thorough=False, corpus=()):
    rnd = random.Random(run.seed * 104729 + 5)
    lens = boundary_lens(thorough)
    reqs, ctx = [], []

    def add(req, c):
        reqs.append(req)
        ctx.append(c)

    histories = [(h.get("order"), h["files"]) for h in corpus]
    nw = max(counts.get("dsk.write", 0), counts.get("dsk.rt", 0))
    for i in range(nw):
        order = gen_order(rnd)
        nf = rnd.choice([1, 1, 2, 3, 3, 5])
        histories.append((order, [gen_file(rnd, lens, 30000 if nf > 2 else 65535) for _ in range(nf)]))
    # the boundary sweep: one pre-existing small file, the file under test, one more file (so a spill hits something)
    sweep = counts.get("dsk.sweep", 0)
    sweep_lens = lens if sweep >= 2 else [L for L in lens if any(abs(L - k * G) <= 12 for k in (1, 2)) or L in (0, 1, 253, 254, 255, 256, 2813, 65535)]
    for L in (sweep_lens if (sweep and ("dsk.write" in want or "dsk.rt" in want)) else []):
        for ftype, dtype in ((2, 0), (0, 0), (1, 0xFF)):
            order = gen_order(rnd)
            f = gen_file(rnd, [L])
            f.update(ftype=ftype, dtype=dtype, data=hexs(rdata(rnd, L)))
            if ftype != 2:
                f.update(load=0, exec=0)
            histories.append((order, [gen_file(rnd, [100]), f, gen_file(rnd, [3000])]))

    for order, fs in histories:
        kind, buf = impl_write(order, fs)
        req = {"files": fs}
        if order is not None:
            req["order"] = order
        if "dsk.write" in want:
            add(dict(req, op="dsk.write"), ("dsk.write", (order, fs), (kind, buf)))
            if kind == "ok":
                add({"op": "spec.fsck", "img": patches(buf)}, ("oracle.fsck", (order, fs), buf))
                add({"op": "spec.dskread", "img": patches(buf)}, ("oracle.read", (order, fs), buf))
        if "dsk.rt" in want and kind == "ok":
            lk, lv = impl_list(buf)
            add({"op": "dsk.list", "img": patches(buf)}, ("dsk.rt", (order, fs), (lk, lv)))

    if "dsk.frag" in want:
        for i in range(counts.get("dsk.frag", 0)):
            nf = rnd.choice([1, 2, 3, 4, 6])
            fs = [gen_file(rnd, lens, 20000) for _ in range(nf)]
            img, files = frag_image(rnd, fs)
            lk, lv = impl_list(img)
            p = patches(img)
            add({"op": "dsk.list", "img": p}, ("dsk.frag", files, (lk, lv, p)))
            add({"op": "spec.fsck", "img": p}, ("gen.fsck", files, p))

    if "dsk.corrupt" in want:
        for i in range(counts.get("dsk.corrupt", 0)):
            fs = [gen_file(rnd, lens, 8000) for _ in range(rnd.choice([1, 2, 3]))]
            img, files = frag_image(rnd, fs)
            bad = corrupt(rnd, img)
            lk, lv = impl_list(bad)
            if len(bad) == SIZE:
                p = patches(bad)
                add({"op": "dsk.list", "img": p}, ("dsk.corrupt", None, (lk, lv, p)))
            else:
                add({"op": "dsk.list", "buf": hexs(bad)}, ("dsk.corrupt", None, (lk, lv, {"truncated_to": len(bad)})))

    if "dsk.fill" in want:
        for i in range(counts.get("dsk.fill", 0)):
            order = gen_order(rnd)
            mode = rnd.choice(["slots", "granules", "mix"])
            fs = []
            if mode == "slots":
                fs = [gen_file(rnd, [0, 1, 10]) for _ in range(74)]
            elif mode == "granules":
                fs = [gen_file(rnd, [2 * G - 20, 2 * G - 10, 2 * G - 5, 2 * G, 3 * G + 1, 5 * G]) for _ in range(40)]
            else:
                fs = [gen_file(rnd, [0, 5, G - 10, G - 5, G, 2 * G - 10, 4 * G, 10 * G]) for _ in range(80)]
            plan_fill(add, order, fs)

    if "dsk.geom" in want:
        add({"op": "dsk.geom", "lo": 0, "hi": 65536}, ("dsk.geom", None, None))
        add({"op": "dsk.seek", "n": 68}, ("dsk.seek", None, None))

    for i, r in enumerate(reqs):
        r["id"] = i
    reps = drive(reqs)
    fill_state = {}

    for req, (stream, inp, impl), rep in zip(reqs, ctx, reps):
        if stream == "dsk.write":
            order, fs = inp
            kind, buf = impl
            summ = {"order": "default" if order is None else order[:6], "files": [dict(f, data="({} bytes)".format(len(f["data"]) // 2)) for f in fs]}
            run.case(stream, summ, [kind], nontrivial=True)
            for f in fs:
                r = stream_len(f) % G
                run.dist["dsk.kind." + ("ml" if is_ml(f) else "ascii" if f["dtype"] == 0xFF else "basic")] += 1
                run.dist["dsk.streamlen_mod_granule." + ("0" if r == 0 else "1-4" if r < 5 else "2300-2303" if r >= 2300 else "other")] += 1
            run.dist["dsk.order." + ("default" if order is None else "custom")] += 1
            mk = mkind(rep)
            same = (kind == mk)
            if same and kind == "ok":
                same = (hash64(buf) == rep["hash"] and hexs(buf[FAT:FAT + 256]) == rep["fat"] and hexs(buf[DIR:DIR + 2304]) == rep["dir"] and len(buf) == rep["len"])
            if not same:
                run.disagree(stream, {"order": order, "files": fs}, [kind, hexs(buf[FAT:FAT + 80]) if kind == "ok" else buf],
                             [mk, (rep.get("fat") or "")[:160]], "image written differs (whole-image hash / FAT / directory)")
        elif stream == "oracle.fsck":
            order, fs = inp
            need = sum(granules_needed(f) for f in fs)
            ok = rep["ok"] and rep["free"] == 68 - need and rep["slots"] == 72 - len(fs)
            chains_ok = [len(c) for c in rep.get("chains", [])] == [granules_needed(f) for f in fs]
            if not rep["ok"]:
                run.violate("C08: image written fails the Disk BASIC consistency check: " + ",".join(rep["failed"]),
                            {"order": order, "files": fs}, "Fsck", {"failed_clauses": rep["failed"], "chains": rep.get("chains")})
            elif not (ok and chains_ok):
                run.violate("C15: space accounting is not exact (free granules / slots / granules per file)",
                            {"order": order, "files": fs}, {"free": 68 - need, "slots": 72 - len(fs), "granules": [granules_needed(f) for f in fs]},
                            {"free": rep["free"], "slots": rep["slots"], "chains": rep.get("chains")})
        elif stream == "oracle.read":
            order, fs = inp
            want_files = [norm_spec(f) for f in fs]
            got = rep.get("files") if rep.get("ok") else None
            if got != want_files:
                run.violate("C08/C07: the reference Disk BASIC reader does not find the stored files on the image written",
                            {"order": order, "files": fs}, "(norm of the files)",
                            "rejected" if got is None else [dict(g, data=g["data"][:64]) for g in got][:4])
        elif stream == "dsk.rt":
            order, fs = inp
            lk, lv = impl
            mk = mkind(rep)
            run.case(stream, {"order": "default" if order is None else order[:6], "nfiles": len(fs),
                              "lens": [len(f["data"]) // 2 for f in fs]}, [lk], nontrivial=True)
            impl_files = [proj(f) for f in lv] if lk == "ok" else None
            model_files = [proj(f) for f in rep["files"]] if mk == "ok" else None
            if lk != mk or impl_files != model_files:
                run.disagree(stream, {"order": order, "files": fs}, [lk, "(files)" if lk == "ok" else lv], [mk], "listing of written image differs")
            expected = [norm(f) for f in fs]
            if not (lk == "ok" and impl_files == expected):
                run.violate("C07: listing the image written does not return the files stored", {"order": order, "files": fs},
                            "(norm of the files)", [lk, lv if lk != "ok" else [dict(g, data=g["data"][:64]) for g in impl_files][:4]])
        elif stream == "dsk.frag":
            fs = inp
            lk, lv, p = impl
            mk = mkind(rep)
            run.case(stream, {"nfiles": len(fs), "lens": [len(f["data"]) // 2 for f in fs]}, [lk], nontrivial=len(fs) > 0)
            impl_files = [proj(f) for f in lv] if lk == "ok" else None
            model_files = [proj(f) for f in rep["files"]] if mk == "ok" else None
            if lk != mk or impl_files != model_files:
                run.disagree(stream, {"img": p, "files": fs}, [lk, "(files)" if lk == "ok" else lv], [mk], "listing of fragmented image differs")
            expected = [norm(f) for f in fs]
            if not (lk == "ok" and impl_files == expected):
                run.violate("C07: listing a well-formed (fragmented, spec-generated) Disk BASIC image does not return its files",
                            {"img": p, "files": fs}, "(norm of the files)", [lk, lv if lk != "ok" else "(different files)"])
        elif stream == "gen.fsck":
            if not rep["ok"]:
                run.notes.append("generator produced an image the spec rejects: {}".format(rep["failed"]))
                run.disagree("gen.fsck", {"img": impl}, "generator", rep["failed"], "harness generator and Spec.DiskBasic.Fsck disagree")
        elif stream == "dsk.corrupt":
            lk, lv, p = impl
            mk = mkind(rep)
            run.case(stream, {"img_digest": str(hash(str(p)))}, [lk], nontrivial=True)
            run.dist["dsk.corrupt." + lk] += 1
            impl_files = [proj(f) for f in lv] if lk == "ok" else None
            model_files = [proj(f) for f in rep["files"]] if mk == "ok" else None
            if lk != mk or impl_files != model_files:
                run.disagree(stream, {"img": p}, [lk, "(files)" if lk == "ok" else lv], [mk, "(files)" if mk == "ok" else None],
                             "reader outcome on damaged image differs")
        elif stream.startswith("fill."):
            fill_state.setdefault(inp, {})[stream] = rep
            if stream == "fill.fsck":
                check_fill(run, impl, fill_state.pop(inp))
        elif stream == "dsk.geom":
            check_geom(run, rep)
        elif stream == "dsk.seek":
            impl_seek = [DiskFile.seek_granule(g) for g in range(68)]
            run.case("dsk.seek", {"granules": "0..67"}, ["exhaustive"], nontrivial=True)
            run.exhaustive["dsk.seek"] = 68
            if impl_seek != rep["seek"]:
                run.disagree("dsk.seek", {}, impl_seek, rep["seek"], "seek_granule differs")


def check_geom(run, rep):
    """exhaustive: all 65,536 data lengths x 3 file kinds, the four calculate_* functions"""
    kinds = {"ml": (MLPreamble(), Postamble()), "basic": (BasicPreamble(), None), "ascii": (ASCIIPreamble(), None)}
    bad = 0
    zeros = [0] * 65536
    for name, (pre, post) in kinds.items():
        row = rep[name]
        for n in range(65536):
            data = memoryview(bytes(n)) if False else range(n)     # len() is all that is used
            a = DiskFile.calculate_granules_needed(data, pre, post)
            b = DiskFile.calculate_last_sector_bytes_used(data, pre, post)
            c = DiskFile.calculate_last_granules_sectors_used(data, pre, post)
            if (a, b, c) != (row[3 * n], row[3 * n + 1], row[3 * n + 2]):
                bad += 1
                if bad <= 3:
                    run.disagree("dsk.geom", {"kind": name, "len": n}, [a, b, c], row[3 * n:3 * n + 3], "calculate_* differs")
    sec = rep["sectors"]
    for n in range(65536):
        if DiskFile.calculate_sectors_needed(n) != sec[n]:
            bad += 1
            if bad <= 3:
                run.disagree("dsk.geom", {"len": n}, DiskFile.calculate_sectors_needed(n), sec[n], "calculate_sectors_needed differs")
    run.case("dsk.geom", {"lengths": "0..65535", "kinds": ["ml", "basic", "ascii"]}, ["exhaustive", bad], nontrivial=True)
    run.exhaustive["dsk.geom"] = 65536 * 4


def plan_fill(add, order, fs):
    """add files one at a time to one image until something fails (implementation); queue the model / oracle requests"""
    d = DiskFile(granule_fill_order=order)
    stored = []
    steps = []
    for f in fs:
        kind, _ = guarded(lambda: d.add_file(to_coco(f)), 30, diag=(VirtualFileValidationError,))
        steps.append((f, kind))
        if kind != "ok":
            break
        stored.append(f)
    key = id(steps)
    req_ok = {"op": "dsk.write", "files": stored}
    if order is not None:
        req_ok["order"] = order
    # rebuild the image of the successful prefix on the implementation (add_file may leave $99 marks after a failure)
    k2, buf_ok = impl_write(order, stored)
    info = {"order": order, "stored": stored, "steps": steps, "buf_ok": buf_ok}
    add(req_ok, ("fill.ok", key, info))
    if steps and steps[-1][1] != "ok":
        add(dict(req_ok, files=stored + [steps[-1][0]]), ("fill.bad", key, info))
    add({"op": "spec.fsck", "img": patches(buf_ok)}, ("fill.fsck", key, info))


def check_fill(run, info, reps):
    """compare the fill history with the model and check the accounting of C15 with the reference fsck"""
    order, stored, steps, buf_ok = info["order"], info["stored"], info["steps"], info["buf_ok"]
    need = sum(granules_needed(f) for f in stored)
    run.case("dsk.fill", {"order": "default" if order is None else order[:6], "stored": len(stored), "granules": need,
                          "ended": steps[-1][1] if steps else "empty"}, [len(stored), need], nontrivial=True)
    run.dist["dsk.fill.end." + (steps[-1][1] if steps else "none")] += 1
    m_ok = reps["fill.ok"]
    if mkind(m_ok) != "ok" or m_ok["hash"] != hash64(buf_ok):
        run.disagree("dsk.fill", {"order": order, "files": stored}, ["ok", hexs(buf_ok[FAT:FAT + 68])], [mkind(m_ok), (m_ok.get("fat") or "")[:136]],
                     "image after fill history differs")
    fsck = reps["fill.fsck"]
    if not fsck["ok"] or fsck["free"] != 68 - need or fsck["slots"] != 72 - len(stored):
        run.violate("C15/C08: after a fill history the image is not consistent or the accounting is off",
                    {"order": order, "files": stored}, {"free": 68 - need, "slots": 72 - len(stored)},
                    {"ok": fsck["ok"], "failed": fsck["failed"], "free": fsck["free"], "slots": fsck["slots"]})
    if steps and steps[-1][1] != "ok":
        f = steps[-1][0]
        must_fit = granules_needed(f) <= 68 - need and len(stored) < 72
        m_bad = reps["fill.bad"]
        if mkind(m_bad) != steps[-1][1]:
            run.disagree("dsk.fill", {"order": order, "files": stored + [f]}, [steps[-1][1]], [mkind(m_bad)], "outcome of the failing add differs")
        if must_fit or steps[-1][1] != "diag":
            run.violate("C15: a file that fits (enough free granules and a free slot) was not stored, or the failure is not a clean error",
                        {"order": order, "files": stored + [f]}, "stored" if must_fit else "diag", steps[-1][1])
    if need > 68 or len(stored) > 72:
        run.violate("C15: more stored than the medium holds", {"order": order, "files": stored}, "<= 68 granules, <= 72 files", [need, len(stored)])
