"""
harness/framework.py — bookkeeping of one check run (cases, distribution, disagreements, violations,
known findings) and the verdict / evidence logic shared by all properties (DESIGN.md section 1).
"""
import collections
import json
import os
import signal

from common import (ALLOWED_AXIOMS, TRUSTED_BASE, VERIF, InfraError, Stopwatch, audit_axioms, broken_obligations,
                    canon, digest, lake_build, load_known_findings, scan_forbidden, theorem_at, write_evidence,
                    write_replay)


class Timeout(Exception):
    pass


def _alarm(signum, frame):
    raise Timeout()


def guarded(fn, seconds=5, diag=(), ):
    """run fn(); map the way it ends to an outcome kind: ("ok", value) | ("diag", cls) | ("internal", cls) | ("timeout", None)"""
    old = signal.signal(signal.SIGALRM, _alarm)
    signal.setitimer(signal.ITIMER_REAL, seconds)
    try:
        return ("ok", fn())
    except Timeout:
        return ("timeout", None)
    except diag as e:
        return ("diag", type(e).__name__)
    except RecursionError as e:
        return ("internal", "RecursionError")
    except Exception as e:       # noqa
        return ("internal", type(e).__name__)
    finally:
        signal.setitimer(signal.ITIMER_REAL, 0)
        signal.signal(signal.SIGALRM, old)


class Run:
    def __init__(self, prop, tier, seed):
        self.prop = prop
        self.tier = tier
        self.seed = seed
        self.evaluations = 0
        self.distinct = set()
        self.samples = []
        self.dist = collections.Counter()
        self.disagreements = []      # model vs implementation (the tie)
        self.violations = []         # property fails on the implementation (spec oracle), not a known finding
        self.known = collections.OrderedDict()   # finding id -> {"count": n, "example": case}
        self.exhaustive = {}
        self.streams = collections.Counter()
        self.notes = []

    def case(self, stream, inp, outcome_class, nontrivial=True, sample_every=0):
        """count one evaluated case; `outcome_class` is a small hashable summary used for distinctness"""
        self.evaluations += 1
        self.streams[stream] += 1
        if nontrivial:
            self.distinct.add(digest([stream, inp, outcome_class]))
        if len(self.samples) < 6 and (self.streams[stream] == 1 or (sample_every and self.evaluations % sample_every == 0)):
            s = canon({"stream": stream, "input": inp, "outcome": outcome_class})
            self.samples.append(json.loads(s if len(s) < 1500 else canon({"stream": stream, "input": "(large; digest " + digest(inp) + ")", "outcome": outcome_class})))

    def disagree(self, stream, inp, impl, model, what=""):
        if len(self.disagreements) < 50:
            self.disagreements.append({"stream": stream, "input": inp, "impl": impl, "model": model, "what": what})
        else:
            self.dist["disagreements_not_recorded"] += 1

    def violate(self, what, inp, expected, observed, known_id=None):
        if known_id is not None:
            k = self.known.setdefault(known_id, {"count": 0, "example": {"input": inp, "observed": observed}})
            k["count"] += 1
            return
        if len(self.violations) < 50:
            self.violations.append({"what": what, "input": inp, "expected": expected, "observed": observed, "seed": self.seed})
        else:
            self.dist["violations_not_recorded"] += 1


def shrink_text(x, limit=4000):
    s = canon(x)
    return x if len(s) <= limit else {"truncated": s[:limit]}


def finish(run, spec, proof, sw):
    """
    spec: registry entry of the property: {level, theorems, modules, streams, rule, assumptions}
    proof: {"built": bool, "build_output": str, "axioms": {...}, "forbidden": [...]}
    Decides the verdict, prints VIOLATION / KNOWN-FINDING lines, writes evidence; returns exit code.
    """
    prop = run.prop
    findings = [f for f in load_known_findings().get("findings", []) if prop in f.get("properties", [f.get("property")])]
    listed = {f["id"]: f for f in findings}

    # --- proof obligations
    obligations = []
    broken = []
    for t in spec["theorems"]:
        ax = proof["axioms"].get(t)
        ok = proof["built"] and ax is not None and set(ax) <= ALLOWED_AXIOMS
        obligations.append({"theorem": t, "axioms": ax, "ok": ok})
        if not ok:
            broken.append("theorem {} {}".format(t, "does not check" if ax is None else "uses axioms {}".format(ax)))
    if proof["forbidden"]:
        broken.append("forbidden text in Lean sources: {}".format(proof["forbidden"][:5]))
    if not proof["built"]:
        for item in broken_obligations(proof["build_output"])[:10]:
            name = theorem_at(item["file"], item["line"])
            broken.append("build: {}:{} ({}) {}".format(item["file"], item["line"], name, item["msg"]))
        if not broken:
            broken.append("build failed: " + proof["build_output"][-600:])
    n_obl = len(obligations) + 1            # + the textual scan
    n_ok = sum(1 for o in obligations if o["ok"]) + (0 if proof["forbidden"] else 1)

    # --- known findings: a hit counts only for listed ids
    unknown_known = [k for k in run.known if k not in listed]
    for k in unknown_known:
        ex = run.known.pop(k)
        run.violations.append({"what": "finding {} is not listed in known_findings.json".format(k),
                               "input": ex["example"]["input"], "expected": None, "observed": ex["example"]["observed"]})

    exit_code = 0
    lines = []
    replay_n = 0
    for v in run.violations[:5]:
        replay_n += 1
        path = write_replay(prop, replay_n, {"property": prop, "kind": "property-violation-on-implementation",
                                             "what": v["what"], "input": v["input"], "expected": v["expected"],
                                             "observed": v["observed"], "seed": v.get("seed", run.seed), "tier": run.tier})
        lines.append("VIOLATION property={} replay={}".format(prop, os.path.relpath(path, VERIF)))
        exit_code = 1
    if not run.violations and (broken or run.disagreements):
        replay_n += 1
        payload = {"property": prop, "kind": "proof-or-correspondence-broken", "seed": run.seed, "tier": run.tier,
                   "broken_obligations": broken,
                   "broken_correspondence": [shrink_text(d) for d in run.disagreements[:5]],
                   "search": "spec-oracle search over {} cases ({}) found no input on which the implementation violates the property".format(
                       run.evaluations, dict(run.streams))}
        path = write_replay(prop, replay_n, payload)
        lines.append("VIOLATION property={} replay={} no-failing-input-found".format(prop, os.path.relpath(path, VERIF)))
        exit_code = 1

    for fid, k in run.known.items():
        print("KNOWN-FINDING: property={} {} [{}; reproduced {}x in this run]".format(prop, listed[fid]["what"], fid, k["count"]))
    for l in lines:
        print(l)

    coverage = {
        "obligations": n_obl, "discharged": n_ok,
        "checker_cmd": "cd lean && lake build {} && lake env lean .cache/audit/Audit_{}.lean  (#print axioms of every registered theorem){}".format(
            " ".join(spec["modules"]), prop, " && lake env leanchecker " + " ".join(spec["modules"]) if proof.get("leanchecker") else ""),
        "trusted_base": TRUSTED_BASE,
        "theorems": obligations,
        "evaluations": run.evaluations, "distinct_nontrivial": len(run.distinct),
        "rule": spec["rule"],
        "samples": run.samples or [{"note": "no sampled cases"}],
        "streams": dict(run.streams), "distribution": dict(run.dist), "exhaustive_streams": run.exhaustive,
        "exhaustive": False,
        "model_vs_impl_disagreements": len(run.disagreements),
        "known_findings_reconfirmed": {k: v["count"] for k, v in run.known.items()},
        "notes": run.notes,
    }
    if spec["level"] == "translation_validation":
        coverage["programs"] = max(run.evaluations, 1)
        coverage["disagreements_checked"] = len(run.disagreements)
    doc = {"property_id": prop, "tier": run.tier, "seed": run.seed, "level": spec["level"], "coverage": coverage,
           "assumptions": spec.get("assumptions", []), "wall_s": sw.s(), "violations": len(run.violations) + (1 if exit_code and not run.violations else 0)}
    write_evidence(prop, doc)
    print("{} {} tier={} seed={} obligations={}/{} cases={} distinct={} disagreements={} violations={} known={} wall={}s".format(
        "PASS" if exit_code == 0 else "FAIL", prop, run.tier, run.seed, n_ok, n_obl, run.evaluations, len(run.distinct),
        len(run.disagreements), len(run.violations), list(run.known), sw.s()))
    return exit_code


def prove(prop, spec, tier="quick"):
    """build the property's modules + driver, audit axioms, textual scan; thorough: re-check the .olean files with leanchecker"""
    built, out = lake_build(spec["modules"] + ["driver"])
    axioms = {}
    if built:
        axioms, _ = audit_axioms(prop, spec["modules"], spec["theorems"])
        if tier == "thorough" and spec["modules"]:
            from common import BuildLock, LEAN_DIR, run as _run
            with BuildLock():
                rc, o, e = _run(["lake", "env", "leanchecker"] + list(spec["modules"]), cwd=LEAN_DIR, timeout=3000)
            if rc != 0:
                built = False
                out = "leanchecker rejected the compiled modules: " + (o + e)[-800:]
    else:
        # the driver may still be buildable (needed for the failing-input search)
        lake_build(["driver"])
    return {"built": built, "build_output": out, "axioms": axioms, "forbidden": scan_forbidden(),
            "leanchecker": tier == "thorough" and built}
