#!/venv/bin/python
"""assemble one program (JSON list of lines on stdin) in a fresh interpreter and print the canonical result (C17)"""
import json
import os
import sys

sys.path.insert(0, os.path.dirname(os.path.abspath(__file__)))
import fam_asm   # noqa: E402

lines = json.load(sys.stdin)
r = fam_asm.impl_prog(lines)
print(json.dumps(fam_asm.impl_prog_canon(r), sort_keys=True))
