"""
harness/common.py — shared plumbing of the correspondence check and the failing-input search:
locating /repo, building the Lean project, talking to the compiled driver, auditing axioms,
writing evidence and replay files, matching known findings.
"""
import fcntl
import hashlib
import json
import os
import re
import subprocess
import sys
import time

VERIF = os.path.dirname(os.path.dirname(os.path.abspath(__file__)))
REPO = os.environ.get("COCO_REPO", "/repo")
LEAN_DIR = os.path.join(VERIF, "lean")
DRIVER = os.environ.get("COCO_DRIVER") or os.path.join(LEAN_DIR, ".lake", "build", "bin", "driver")
EVIDENCE_DIR = os.path.join(VERIF, "evidence")
REPLAY_DIR = os.path.join(EVIDENCE_DIR, "replay")
CACHE_DIR = os.path.join(VERIF, ".cache")
PYTHON = "/venv/bin/python" if os.path.exists("/venv/bin/python") else sys.executable

ALLOWED_AXIOMS = {"propext", "Classical.choice", "Quot.sound"}
FORBIDDEN_TEXT = re.compile(
    r"\bsorry\b|\badmit\b|^axiom\s|native_decide|bv_decide|implemented_by|\bunsafe\s|maxHeartbeats\s+0", re.M)

TRUSTED_BASE = [
    "Lean 4.33.0 kernel (axioms allowed: propext, Classical.choice, Quot.sound; no native_decide / bv_decide / sorry)",
    "hand-written specification modules lean/CoCoVerif/Spec/*.lean (what 'correct' means)",
    "hand-written bug-compatible model lean/CoCoVerif/Model/*.lean, tied to /repo by the correspondence streams of this run",
    "translator harness/gen_tables.py (module-level tables and constants of /repo -> lean/CoCoVerif/Gen/*.lean)",
    "correspondence harness harness/*.py and its generators (sampled except where marked exhaustive)",
    "Lean compiler/runtime for the driver executable (correspondence and search only, never a theorem)",
]


class InfraError(Exception):
    """timeout, lake crash, driver crash: exit 2, never a VIOLATION line"""


def repo_import_path():
    if REPO not in sys.path:
        sys.path.insert(0, REPO)


def repo_digest():
    """content hash of the /repo working-tree sources"""
    h = hashlib.sha256()
    for root, dirs, files in sorted(os.walk(REPO)):
        dirs[:] = sorted(d for d in dirs if d not in (".git", "__pycache__", "test", ".pytest_cache"))
        for f in sorted(files):
            if f.endswith(".py"):
                p = os.path.join(root, f)
                h.update(p.encode())
                with open(p, "rb") as fh:
                    h.update(fh.read())
    return h.hexdigest()


class BuildLock:
    def __enter__(self):
        os.makedirs(CACHE_DIR, exist_ok=True)
        self.fh = open(os.path.join(CACHE_DIR, "lake.lock"), "w")
        fcntl.flock(self.fh, fcntl.LOCK_EX)
        return self

    def __exit__(self, *a):
        fcntl.flock(self.fh, fcntl.LOCK_UN)
        self.fh.close()


def run(cmd, cwd=None, timeout=1800, input=None, env=None):
    try:
        p = subprocess.run(cmd, cwd=cwd, timeout=timeout, input=input, capture_output=True, text=True, env=env)
    except subprocess.TimeoutExpired:
        raise InfraError("timeout: {}".format(" ".join(cmd)))
    return p.returncode, p.stdout, p.stderr


def lake_build(targets, timeout=2400):
    """returns (ok, output). A failing build is NOT an infrastructure error: it may be a broken proof."""
    with BuildLock():
        rc, out, err = run(["lake", "build"] + list(targets), cwd=LEAN_DIR, timeout=timeout)
    return rc == 0, out + err


def broken_obligations(build_output):
    """names of declarations and files that failed, from lake/lean error output"""
    items = []
    for m in re.finditer(r"error: (\S+?\.lean):(\d+):(\d+): (.*)", build_output):
        items.append({"file": m.group(1), "line": int(m.group(2)), "msg": m.group(4)[:300]})
    return items


def theorem_at(file_rel, line):
    """name of the declaration enclosing a line of a Lean file (for naming the broken obligation)"""
    try:
        with open(os.path.join(LEAN_DIR, file_rel)) as fh:
            lines = fh.readlines()
    except OSError:
        return None
    for i in range(min(line, len(lines)) - 1, -1, -1):
        m = re.match(r"\s*(?:private\s+|protected\s+)?(?:theorem|lemma|def|example|instance)\s+([^\s:({\[]+)?", lines[i])
        if m:
            return m.group(1) or "example@{}".format(i + 1)
    return None


def audit_axioms(prop, module, theorems):
    """#print axioms for each registered theorem; returns dict name -> list of axioms (or raises InfraError)"""
    os.makedirs(os.path.join(CACHE_DIR, "audit"), exist_ok=True)
    path = os.path.join(CACHE_DIR, "audit", "Audit_{}.lean".format(prop))
    with open(path, "w") as fh:
        for m in module if isinstance(module, (list, tuple)) else [module]:
            fh.write("import {}\n".format(m))
        for t in theorems:
            fh.write("#print axioms {}\n".format(t))
    with BuildLock():
        rc, out, err = run(["lake", "env", "lean", path], cwd=LEAN_DIR, timeout=900)
    text = (out + err).replace("\n  ", " ")
    result = {}
    for t in theorems:
        m = re.search(r"'" + re.escape(t) + r"' depends on axioms: \[([^\]]*)\]", text, re.S)
        if m:
            result[t] = [a.strip() for a in m.group(1).replace("\n", " ").split(",") if a.strip()]
        elif re.search(r"'" + re.escape(t) + r"' does not depend on any axioms", text):
            result[t] = []
        else:
            result[t] = None   # theorem missing or failed to elaborate
    return result, text


def scan_forbidden():
    """textual scan of the Lean sources (comments stripped) for sorry / native_decide / axiom ..."""
    hits = []
    for root, dirs, files in os.walk(LEAN_DIR):
        dirs[:] = [d for d in dirs if d != ".lake"]
        for f in files:
            if not f.endswith(".lean"):
                continue
            p = os.path.join(root, f)
            with open(p) as fh:
                src = fh.read()
            src = re.sub(r"/-.*?-/", lambda m: "\n" * m.group(0).count("\n"), src, flags=re.S)
            src = re.sub(r"--.*", "", src)
            for m in FORBIDDEN_TEXT.finditer(src):
                hits.append("{}:{}: {}".format(os.path.relpath(p, LEAN_DIR), src.count("\n", 0, m.start()) + 1, m.group(0).strip()))
    return hits


def _drive_chunk(data, timeout):
    rc, out, err = run([DRIVER], input=data, timeout=timeout)
    if rc != 0:
        raise InfraError("driver exited {}: {}".format(rc, err[:500]))
    return [l for l in out.split("\n") if l]


def drive(requests, timeout=1800, jobs=None):
    """send a batch of JSON requests to the compiled Lean driver (several processes in parallel);
    returns the list of replies in request order"""
    if not requests:
        return []
    if not os.path.exists(DRIVER):
        raise InfraError("driver executable missing: " + DRIVER)
    lines = [json.dumps(r, separators=(",", ":")) + "\n" for r in requests]
    jobs = jobs or min(int(os.environ.get("VERIF_JOBS", "12")), max(1, len(lines) // 8))
    if jobs <= 1:
        out = _drive_chunk("".join(lines), timeout)
    else:
        # round-robin so that expensive neighbouring requests spread over the workers
        chunks = [lines[i::jobs] for i in range(jobs)]
        from concurrent.futures import ThreadPoolExecutor
        with ThreadPoolExecutor(max_workers=jobs) as ex:
            outs = list(ex.map(lambda c: _drive_chunk("".join(c), timeout), chunks))
        for c, o in zip(chunks, outs):
            if len(c) != len(o):
                raise InfraError("driver returned {} replies for {} requests".format(len(o), len(c)))
        out = [None] * len(lines)
        for j, o in enumerate(outs):
            out[j::jobs] = o
    if len(out) != len(requests):
        raise InfraError("driver returned {} replies for {} requests".format(len(out), len(requests)))
    return [json.loads(l) for l in out]


def hexs(bs):
    return bytes(bs).hex()


def canon(o):
    return json.dumps(o, sort_keys=True, separators=(",", ":"))


def digest(o):
    return hashlib.sha256(canon(o).encode()).hexdigest()[:16]


def load_known_findings():
    p = os.path.join(VERIF, "known_findings.json")
    with open(p) as fh:
        return json.load(fh)


def write_replay(prop, n, payload):
    os.makedirs(REPLAY_DIR, exist_ok=True)
    path = os.path.join(REPLAY_DIR, "{}-{}.json".format(prop, n))
    with open(path, "w") as fh:
        json.dump(payload, fh, indent=1, sort_keys=True)
    return path


def write_evidence(prop, doc):
    os.makedirs(EVIDENCE_DIR, exist_ok=True)
    path = os.path.join(EVIDENCE_DIR, "{}.json".format(prop))
    tmp = path + ".tmp"
    with open(tmp, "w") as fh:
        json.dump(doc, fh, indent=1, sort_keys=True)
    os.replace(tmp, path)
    return path


class Stopwatch:
    def __init__(self):
        self.t0 = time.time()

    def s(self):
        return round(time.time() - self.t0, 2)
