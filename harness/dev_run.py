#!/venv/bin/python
"""development helper: run streams of a family without the proof step and print disagreements/violations"""
import json, os, sys
sys.path.insert(0, os.path.dirname(os.path.abspath(__file__)))
import framework
from common import Stopwatch

def main():
    fam = sys.argv[1]
    streams = {}
    for a in sys.argv[2:]:
        k, _, v = a.partition("=")
        streams[k] = int(v or 1)
    seed = int(os.environ.get("VERIF_SEED", "0"))
    run = framework.Run("DEV", "quick", seed)
    sw = Stopwatch()
    mod = __import__("fam_" + fam)
    mod.run_streams(run, set(streams), streams)
    print("cases", run.evaluations, dict(run.streams), "wall", sw.s())
    print("dist", dict(run.dist))
    print("disagreements", len(run.disagreements))
    for d in run.disagreements[:4]:
        print("  D", json.dumps(d)[:1500])
    print("violations", len(run.violations), "known", {k: v["count"] for k, v in run.known.items()})
    for v in run.violations[:4]:
        print("  V", json.dumps(v)[:1500])
    for n in run.notes[:5]:
        print("  N", n)

main()
