"""
harness/props_asm.py — per-property checks of the assembler properties: generators (gen_asm), the
correspondence with the Lean model (fam_asm.compare_progs, projected onto what the property observes),
the spec-oracle search on the implementation (oracle_asm + arithmetic recomputation), and the matching of
violations against the known findings (region predicate AND implementation == model prediction).
"""
import random
import re

import fam_asm
import gen_asm
import oracle_asm
from common import drive, hexs, repo_import_path

repo_import_path()
from cocoasm.instruction import INSTRUCTIONS    # noqa: E402

IS16 = {i.mnemonic for i in INSTRUCTIONS if i.is_16_bit}
ROWS = {i.mnemonic: i for i in INSTRUCTIONS}


# ------------------------------------------------------------------ regions of the known findings (C01 / C12)

def region_of_meta(meta, tag):
    """known-finding id for a generated statement form, or None (see known_findings.json for each id)"""
    form = meta.get("form")
    v = meta.get("v")
    mn = meta.get("mn")
    sym = tag in ("sym", "sym-late")
    if form and form.endswith("+1") and v is not None:
        v1 = v + 1
    else:
        v1 = v
    if tag == "label":
        org = meta.get("org")
        low = org is None or org < 0x100
        if form in ("idxlbl", "idxlbl+1"):
            return "C3"            # a label as constant index offset is rejected
        if form in ("extind+1",):
            return "C3"
        if form in ("dirf", "extf"):
            return "A11"           # < and > are ignored for labels
        if form in ("imm", "imm+1") and mn not in IS16:
            return "A5"            # a 16-bit address as 8-bit immediate is accepted
        if low:
            return "A11"           # addresses below $100 render as one byte
        return None
    if form == "idx" and meta.get("k") == "off":
        if v < 0:
            return "A4"
        if mn in IS16 and v <= 127:
            return "A3"
        return None
    if form in ("idxsym", "idxsymind"):
        if mn in IS16 or True:
            return "A3"            # EQU constants as index offsets: width comes from the symbol's rendering
    if form == "npcr":
        return "A9"
    if form in ("imm", "imm+1"):
        w16 = mn in IS16
        if not w16 and not (-128 <= v1 <= 255):
            return "A5"
        if w16 and (v1 < 0 or sym):
            return "A8"
        if sym:
            return "A8"
        return None
    if form == "dirf":
        return "A5" if (v >= 256 or sym) else None
    if form == "extf":
        return "A6" if (v < 256 or sym) else None
    if form == "extind":
        return "A7" if (v < 256 or sym) else None
    if form in ("mem", "mem+1"):
        if sym:
            return "A13"
        return None
    if form == "list":
        regs = meta.get("regs", [])
        if "S" in regs or "U" in regs:
            return "A10"
        return None
    return None


SHAPES = [
    (re.compile(r"^\[?[^,\[\]]*,PCR\]?$"), "A9"),
    (re.compile(r"^\[?[^,\[\]]+,[^,\[\]]*\]?$"), "A3"),      # n,R  (offset width / negative offsets / register detection by substring)
    (re.compile(r"^\[?,[^,\[\]]*\]?$"), "A10"),              # ,R forms: register detection by substring
    (re.compile(r"^\[[^,\[\]]*\]$"), "A7"),
    (re.compile(r"^#"), "A5"),
    (re.compile(r"^<"), "A5"),
    (re.compile(r"^>"), "A6"),
    (re.compile(r"^[^,]*$"), "A11"),                         # plain value / symbol / expression
    (re.compile(r","), "A10"),                               # register lists
]


def region_of_text(opnd):
    """coarse region by operand SHAPE for statements generated without meta (random / mutated text).  A violation
    inside a region is a known finding only if the implementation behaves exactly as the model predicts there."""
    for rx, rid in SHAPES:
        if rx.search(opnd or ""):
            return rid
    return None


# ------------------------------------------------------------------ C01 / C12

def cases_c01(run, thorough):
    rnd = random.Random(run.seed * 613 + 11)
    sample = None if thorough else 0.06
    cases = list(gen_asm.stmt_matrix(rnd, sample=sample))
    cases += list(gen_asm.special_matrix(rnd))
    sym = list(gen_asm.symbol_matrix(rnd))
    cases += sym if thorough else [c for c in sym if rnd.random() < 0.25]
    return cases


def label_addr(im):
    if im["k"] != "ok":
        return 0
    for k, v in im["symtab"]:
        if k == "LBL" and v:
            return int(v, 16)
    return 0


def run_c01(run, thorough=False, for_c12=False):
    cases = cases_c01(run, thorough)
    res = fam_asm.compare_progs(run, "asm.stmt", cases)
    disagree_keys = {fam_asm_key(d["input"]) for d in run.disagreements}
    hexes = []
    for c, im, rep in res:
        idx = c["meta"].get("stmt", 0)
        b = im["stmts"][idx]["bytes"] if im["k"] == "ok" and len(im["stmts"]) > idx else None
        hexes.append(b or "")
    decs = oracle_asm.decode_all(hexes)
    for (c, im, rep), d in zip(res, decs):
        m = c["meta"]
        idx = m.get("stmt", 0)
        la = label_addr(im) if c["tag"] == "label" else None
        verdict = oracle_asm.judge_statement(m, im, idx, d, la)
        outcome = "ok" if verdict is None else verdict[0]
        run.case("asm.stmt", {"src": [l.strip() for l in c["lines"]], "form": m.get("form")}, [im["k"], outcome], nontrivial=True, sample_every=997)
        run.dist["c01.form." + str(m.get("form"))] += 1
        run.dist["c01.outcome." + outcome] += 1
        if verdict is None:
            continue
        if for_c12 and verdict[0] in ("REJECTED_VALID",):
            continue          # C12 is the soundness direction only
        rid = region_of_meta(m, c["tag"])
        same = fam_asm_key({"lines": c["lines"], "files": None}) not in disagree_keys
        run.dist["c01.region." + str(rid)] += 1
        run.violate("{}: {}".format("C12" if for_c12 else "C01", describe(verdict[0])),
                    {"lines": c["lines"], "form": m}, "valid form encoded as written / invalid form rejected",
                    {"class": verdict[0], "detail": verdict[1]}, known_id=rid if (rid and same) else None)


def describe(cls):
    return {
        "REJECTED_VALID": "a statement valid under the README grammar and the addressing-mode table is rejected",
        "ACCEPTED_INVALID": "a statement that is not valid (value out of range / mode or register not applicable) is accepted",
        "WRONG_undecodable": "the bytes emitted do not decode as an MC6809 instruction",
        "WRONG_trailing": "the bytes emitted are more than one instruction (trailing bytes)",
        "WRONG_size": "the number of bytes emitted differs from the size the listing reserves",
        "WRONG_meaning": "the bytes decode to a different operation / mode / register / value than written",
    }.get(cls, cls)


def fam_asm_key(inp):
    return "\n".join(inp["lines"]) + "|" + str(sorted((inp.get("files") or {}).items()))


def run_c12(run, thorough=False):
    """soundness: grammar-valid forms with out-of-range values / wrong registers / wrong modes (the matrix with meta),
    plus arbitrary operand strings (random programs, mutations): whatever is accepted must decode, consume all
    bytes, and fill exactly the reserved size"""
    run_c01(run, thorough, for_c12=True)
    rnd = random.Random(run.seed * 389 + 5)
    n = 300 if not thorough else 4000
    cases = list(gen_asm.random_programs(rnd, n, valid_bias=0.5)) + list(gen_asm.mutations(rnd, n))
    # single statements with operands drawn from a pool of tricky strings
    TRICKY = ["5,Z", "1,PC", "5,y", ",PCR", "S", "A,X,", "#", "#256", "#-129", "<$1234", "[$12]", "70000", "$12345", "[,X+]", "[,-Y]", ",X+++",
              "[5", "5]", "A,B", "D,PCR", "[A,PCR]", "-0,X", "00,X", "$0,X", "16,PCR", "-17,PCR", "X", "#'A", "'", "%101", ">", "<", "[]", "[,]", ","]
    for mn in [i.mnemonic for i in gen_asm.real_instructions()][:: (1 if thorough else 7)]:
        for t in TRICKY:
            cases.append({"lines": gen_asm.L(" %s %s" % (mn, t)), "tag": "tricky", "meta": {}})
    res = fam_asm.compare_progs(run, "asm.anytext", cases)
    disagree_keys = {fam_asm_key(d["input"]) for d in run.disagreements}
    todo = []
    for c, im, rep in res:
        run.case("asm.anytext", {"src": [l.strip() for l in c["lines"]][:8]}, [im["k"]], nontrivial=True, sample_every=499)
        run.dist["c12.any." + im["k"]] += 1
        if im["k"] != "ok":
            continue
        for st in im["stmts"]:
            row = ROWS.get(st["mn"])
            if row is None or row.is_pseudo:
                continue
            todo.append((c, st))
    decs = oracle_asm.decode_all([st["bytes"] or "" for c, st in todo])
    for (c, st), d in zip(todo, decs):
        verdict = oracle_asm.judge_accepted(st["mn"], st, d)
        if verdict is None:
            continue
        rid = region_of_text(st["opnd"] or "")
        same = fam_asm_key({"lines": c["lines"], "files": None}) not in disagree_keys
        run.dist["c12.any.violation." + verdict[0]] += 1
        run.violate("C12: an accepted statement yields a malformed or truncated instruction ({})".format(verdict[0]),
                    {"lines": c["lines"], "statement": "%s %s" % (st["mn"], st["opnd"])}, "one complete instruction of that mnemonic, size = bytes",
                    {"class": verdict[0], "detail": verdict[1]}, known_id=rid if (rid and same) else None)
