"""
harness/props_asm.py — per-property checks of the assembler properties: generators (gen_asm), the
correspondence with the Lean model (fam_asm.compare_progs, projected onto what the property observes),
the spec-oracle search on the implementation (oracle_asm + arithmetic recomputation), and the matching of
violations against the known findings (region predicate AND implementation == model prediction).
"""
import random
import re

import fam_asm
import gen_asm
import oracle_asm
from common import drive, hexs, repo_import_path

repo_import_path()
from cocoasm.instruction import INSTRUCTIONS    # noqa: E402

IS16 = {i.mnemonic for i in INSTRUCTIONS if i.is_16_bit}
ROWS = {i.mnemonic: i for i in INSTRUCTIONS}


# ------------------------------------------------------------------ regions of the known findings (C01 / C12)

def region_of_meta(meta, tag):
    """known-finding id for a generated statement form, or None (see known_findings.json for each id)"""
    form = meta.get("form")
    v = meta.get("v")
    mn = meta.get("mn")
    sym = tag in ("sym", "sym-late")
    if form and form.endswith("+1") and v is not None:
        v1 = v + 1
    else:
        v1 = v
    return None


SHAPES = []


def region_of_text(opnd):
    """coarse region by operand SHAPE for statements generated without meta (random / mutated text).  A violation
    inside a region is a known finding only if the implementation behaves exactly as the model predicts there."""
    for rx, rid in SHAPES:
        if rx.search(opnd or ""):
            return rid
    return None


# ------------------------------------------------------------------ C01 / C12

def cases_c01(run, thorough):
    rnd = random.Random(run.seed * 613 + 11)
    sample = None if thorough else 0.3
    cases = list(gen_asm.stmt_matrix(rnd, sample=sample))
    cases += list(gen_asm.special_matrix(rnd))
    sym = list(gen_asm.symbol_matrix(rnd))
    cases += sym if thorough else [c for c in sym if rnd.random() < 0.25]
    return cases


def label_addr(im, meta=None):
    if im["k"] != "ok":
        # rejected: the layout of the generated label programs is known up to the size of the one instruction
        # (label first: at the origin; label last: origin + 2..4 + 1) - enough to tell below / above $100 apart
        if meta is not None:
            return (meta.get("org") or 0) + (4 if meta.get("late") else 0)
        return 0
    for k, v in im["symtab"]:
        if k == "LBL" and v:
            return int(v, 16)
    return 0


def run_c01(run, thorough=False, for_c12=False):
    cases = cases_c01(run, thorough)
    res = fam_asm.compare_progs(run, "asm.stmt", cases)
    disagree_keys = {fam_asm_key(d["input"]) for d in run.disagreements}
    hexes = []
    for c, im, rep in res:
        idx = c["meta"].get("stmt", 0)
        b = im["stmts"][idx]["bytes"] if im["k"] == "ok" and len(im["stmts"]) > idx else None
        hexes.append(b or "")
    decs = oracle_asm.decode_all(hexes)
    for (c, im, rep), d in zip(res, decs):
        m = c["meta"]
        idx = m.get("stmt", 0)
        la = label_addr(im, m) if c["tag"] == "label" else None
        verdict = oracle_asm.judge_statement(m, im, idx, d, la)
        outcome = "ok" if verdict is None else verdict[0]
        run.case("asm.stmt", {"src": [l.strip() for l in c["lines"]], "form": m.get("form")}, [im["k"], outcome], nontrivial=True, sample_every=997)
        run.dist["c01.form." + str(m.get("form"))] += 1
        run.dist["c01.outcome." + outcome] += 1
        if verdict is None:
            continue
        if for_c12 and verdict[0] in ("REJECTED_VALID",):
            continue          # C12 is the soundness direction only
        rid = region_of_meta(m, c["tag"])
        same = fam_asm_key({"lines": c["lines"], "files": None}) not in disagree_keys
        run.dist["c01.region." + str(rid)] += 1
        run.violate("{}: {}".format("C12" if for_c12 else "C01", describe(verdict[0])),
                    {"lines": c["lines"], "form": m}, "valid form encoded as written / invalid form rejected",
                    {"class": verdict[0], "detail": verdict[1]}, known_id=rid if (rid and same) else None)


def describe(cls):
    return {
        "REJECTED_VALID": "a statement valid under the README grammar and the addressing-mode table is rejected",
        "ACCEPTED_INVALID": "a statement that is not valid (value out of range / mode or register not applicable) is accepted",
        "WRONG_undecodable": "the bytes emitted do not decode as an MC6809 instruction",
        "WRONG_trailing": "the bytes emitted are more than one instruction (trailing bytes)",
        "WRONG_size": "the number of bytes emitted differs from the size the listing reserves",
        "WRONG_meaning": "the bytes decode to a different operation / mode / register / value than written",
    }.get(cls, cls)


def fam_asm_key(inp):
    return "\n".join(inp["lines"]) + "|" + str(sorted((inp.get("files") or {}).items()))


def run_c12(run, thorough=False):
    """soundness: grammar-valid forms with out-of-range values / wrong registers / wrong modes (the matrix with meta),
    plus arbitrary operand strings (random programs, mutations): whatever is accepted must decode, consume all
    bytes, and fill exactly the reserved size"""
    run_c01(run, thorough, for_c12=True)
    rnd = random.Random(run.seed * 389 + 5)
    n = 300 if not thorough else 4000
    cases = list(gen_asm.random_programs(rnd, n, valid_bias=0.5)) + list(gen_asm.mutations(rnd, n))
    # single statements with operands drawn from a pool of tricky strings
    TRICKY = ["5,Z", "1,PC", "5,y", ",PCR", "S", "A,X,", "#", "#256", "#-129", "<$1234", "[$12]", "70000", "$12345", "[,X+]", "[,-Y]", ",X+++",
              "[5", "5]", "A,B", "D,PCR", "[A,PCR]", "A,X+", "B,-X", "[D,--Y]", "D,U++", "-0,X", "00,X", "$0,X", "16,PCR", "-17,PCR", "X", "#'A", "'", "%101", ">", "<", "[]", "[,]", ","]
    for mn in [i.mnemonic for i in gen_asm.real_instructions()][:: (1 if thorough else 7)]:
        for t in TRICKY:
            cases.append({"lines": gen_asm.L(" %s %s" % (mn, t)), "tag": "tricky", "meta": {}})
    # the string-level cascade on its own: every short string over the value alphabet (bounded-exhaustive) and structured values
    fam_asm.run_values(run, rnd, 1500 if not thorough else 30000, 2 if not thorough else 4)
    res = fam_asm.compare_progs(run, "asm.anytext", cases)
    disagree_keys = {fam_asm_key(d["input"]) for d in run.disagreements}
    todo = []
    for c, im, rep in res:
        run.case("asm.anytext", {"src": [l.strip() for l in c["lines"]][:8]}, [im["k"]], nontrivial=True, sample_every=499)
        run.dist["c12.any." + im["k"]] += 1
        if im["k"] != "ok":
            continue
        for st in im["stmts"]:
            row = ROWS.get(st["mn"])
            if row is None or row.is_pseudo:
                continue
            todo.append((c, st))
    decs = oracle_asm.decode_all([st["bytes"] or "" for c, st in todo])
    for (c, st), d in zip(todo, decs):
        verdict = oracle_asm.judge_accepted(st["mn"], st, d)
        if verdict is None:
            # grammar half: an unknown or inapplicable register must be rejected, not read as some other register
            bad = bad_register(st["mn"], st["opnd"] or "")
            if bad:
                same = fam_asm_key({"lines": c["lines"], "files": None}) not in disagree_keys
                run.dist["c12.any.violation.register"] += 1
                run.violate("C12: an unknown or inapplicable register is accepted", {"lines": c["lines"], "statement": "%s %s" % (st["mn"], st["opnd"])},
                            "diag", {"register": bad, "bytes": st["bytes"]})
            continue
        rid = region_of_text(st["opnd"] or "")
        same = fam_asm_key({"lines": c["lines"], "files": None}) not in disagree_keys
        run.dist["c12.any.violation." + verdict[0]] += 1
        run.violate("C12: an accepted statement yields a malformed or truncated instruction ({})".format(verdict[0]),
                    {"lines": c["lines"], "statement": "%s %s" % (st["mn"], st["opnd"])}, "one complete instruction of that mnemonic, size = bytes",
                    {"class": verdict[0], "detail": verdict[1]}, known_id=rid if (rid and same) else None)


IDX_REG_RE = re.compile(r"^(-{0,2}[XYUS]|[XYUS]\+{1,2}|PCR)$")


def bad_register(mn, opnd):
    """the register part of an accepted indexed operand / register list that the MC6809 does not have in that place"""
    if mn in ("PSHS", "PULS", "PSHU", "PULU"):
        own = "S" if mn in ("PSHS", "PULS") else "U"
        for r in opnd.split(","):
            if r == own or r not in ("A", "B", "D", "X", "Y", "U", "S", "CC", "DP", "PC"):
                return r
        return None
    if mn in ("TFR", "EXG"):
        return None
    inner = opnd[1:-1] if opnd.startswith("[") and opnd.endswith("]") else opnd
    if inner.count(",") == 1:
        left, right = inner.split(",")
        if not IDX_REG_RE.match(right):
            return right
        if right == "PCR" and left in ("", "A", "B", "D"):
            return right
        if left in ("A", "B", "D") and ("+" in right or "-" in right):
            return left + "," + right          # an accumulator offset cannot be combined with auto increment / decrement
    return None


# ------------------------------------------------------------------ helpers on implementation results

def stmt_int_addr(st):
    return int(st["addr"], 16) if st["addr"] else None


def symtab_ints(im):
    """symbol values as the printed symbol table shows them (`$hhhh NAME`); falls back to the value objects"""
    out = {k: (int(v, 16) if v else None) for k, v in im["symtab"]}
    for line in im.get("symlines") or []:
        m = re.match(r"^\$([0-9A-Fa-f]*) *(\S+)$", line)
        if m:
            out[m.group(2)] = int(m.group(1), 16) if m.group(1) else None
    return out


def proj_layout(r):
    """what C02 observes: addresses, sizes, byte counts, symbols, image, origin"""
    if r.get("k") != "ok":
        return {"k": r.get("k")}
    return {"k": "ok", "stmts": [[s["addr"], s["size"], s["bytes"], s["label"], s["mn"]] for s in r["stmts"]],
            "symtab": r["symtab"], "image": r["image"], "origin": r["origin"],
            "listing_addr_code_columns": [l[:17] if l else l for l in (r.get("listing") or [])], "symlines": r.get("symlines")}


def size_region(im):
    """region id of the first statement whose byte count differs from its listed size (addresses after it are off)"""
    for st in im["stmts"]:
        if st["bytes"] is not None and len(st["bytes"]) // 2 != st["size"]:
            return region_of_text(st["opnd"] or "")
    return None


# ------------------------------------------------------------------ C02

def layout_programs(rnd, n):
    """directed layout cases: later ORG, code before ORG, duplicate and undefined symbols, origins below $100"""
    out = []
    L = gen_asm.L
    for org in ("$10", "$100", "$0E00", "0", "$FF00", "$FFF0"):
        out.append({"lines": L(" ORG " + org, "A LDA #1", "B STA $400", " JMP A", "C FCB 1,2,3", "D RMB 5", "E FDB $1234,5", " END A"), "tag": "org-first", "meta": {}})
    out.append({"lines": L(" NOP", " ORG $10", " NOP", " ORG $5", " NOP"), "tag": "org-later", "meta": {"b1": True}})
    out.append({"lines": L(" ORG $100", "A NOP", " ORG $200", "B NOP", " JMP A", " JMP B"), "tag": "org-later", "meta": {"b1": True}})
    out.append({"lines": L("A NOP", " ORG $300", "B NOP"), "tag": "code-before-org", "meta": {"b1": True}})
    # the ORG rule (fix f9c374f): an ORG after the first byte or the first address label is rejected; after statements that emit
    # nothing and carry no address label it is accepted and the image is laid out from the LAST such ORG
    for pre, ok in (([" NAM X", "C EQU 5"], True), ([" RMB 0"], True), ([" SETDP 0"], True), ([" ORG $10"], True), (["Q ORG $10"], False), (["L RMB 0"], False),
                    (["L SETDP 0"], False), ([" RMB 1"], False), ([" FCB 1"], False), ([" NOP"], False), (["L EQU 7"], True), (["L NAM X"], False),
                    ([" FCC //"], True), (["M FCC //"], False), ([" ORG $10", " ORG $20", "C EQU 1+2"], True)):
        for body in (["S LDA #1", " BRA S", "T FDB S", " LEAX T,PCR", " JMP S"], ["S NOP", " LBRA S"]):
            out.append({"lines": L(*(pre + [" ORG $0E00"] + body)), "tag": "org-rule", "meta": {"reject": not ok, "accept": ok}})
    out.append({"lines": L("L RMB 0", " ORG $100", " BRA L"), "tag": "org-rule", "meta": {"reject": True}})
    out.append({"lines": L(" BRA L", " ORG $100", "L NOP"), "tag": "org-rule", "meta": {"reject": True}})
    out.append({"lines": L(" LEAX L,PCR", " ORG $100", "L NOP"), "tag": "org-rule", "meta": {"reject": True}})
    out.append({"lines": L("A NOP", "A NOP"), "tag": "dup", "meta": {"reject": True}})
    out.append({"lines": L("A EQU 5", "A NOP"), "tag": "dup", "meta": {"reject": True}})
    out.append({"lines": L("A NOP", " NOP", "A EQU 5"), "tag": "dup", "meta": {"reject": True}})
    for t in ("LDA UNDEF", "LDX #UNDEF", "JMP [UNDEF]", "BRA UNDEF", "LEAX UNDEF,PCR", "LDA UNDEF,X", "LDA UNDEF+1", "LBSR UNDEF"):
        out.append({"lines": L("A NOP", " " + t), "tag": "undef", "meta": {"reject": True}})
    return out


def run_c02(run, thorough=False):
    rnd = random.Random(run.seed * 211 + 3)
    n = 250 if not thorough else 3000
    cases = layout_programs(rnd, n) + list(gen_asm.random_programs(rnd, n, valid_bias=0.97)) + \
        [c for c in gen_asm.mutations(rnd, n)] + list(gen_asm.symbol_matrix(rnd))[:: (1 if thorough else 9)] + \
        list(gen_asm.equ_cases(rnd, 60 if not thorough else 1500))
    res = fam_asm.compare_progs(run, "asm.layout", cases, project=proj_layout)
    bad = {fam_asm_key(d["input"]) for d in run.disagreements}
    for c, im, rep in res:
        run.case("asm.layout", {"src": [l.strip() for l in c["lines"]][:10]}, [im["k"], len(im.get("stmts", []))], nontrivial=im["k"] == "ok", sample_every=211)
        run.dist["c02." + c["tag"] + "." + im["k"]] += 1
        same = fam_asm_key({"lines": c["lines"], "files": None}) not in bad
        inp = {"lines": c["lines"]}
        if c["meta"].get("reject"):
            if im["k"] != "diag":
                run.violate("C02: a label defined twice / a symbol never defined is not rejected with a diagnostic", inp, "diag", im["k"])
            continue
        if c["meta"].get("accept") and im["k"] != "ok":
            run.violate("C02: a program whose ORG precedes the first label and byte is rejected", inp, "ok", im["k"])
            continue
        if im["k"] != "ok":
            continue
        if any(s["bytes"] is None or s["addr"] is None for s in im["stmts"]) or im["image"] is None:
            continue          # C13's business
        stmts = im["stmts"]
        noaddr = [s for s in stmts if not s["addr"]]
        if noaddr:
            # an ORG whose operand is not a number keeps a symbol as "address": the listing shows no address and the origin is 0
            rid = None          # (was finding B9: ORG <symbol>; repaired in 3dd5ba5)
            run.violate("C02: a statement of an accepted program has no listing address", inp, "an address", [[s["mn"], s["opnd"]] for s in noaddr][:3],
                        known_id=rid if (rid and same) else None)
            continue
        # (1) image is the in-order concatenation
        if im["image"] != "".join(s["bytes"] for s in stmts):
            run.violate("C02: the image is not the in-order concatenation of the statements' bytes", inp, "concat", im["image"][:80])
        # (2) addresses advance by the number of bytes emitted (an ORG statement may set a new address)
        for a, b in zip(stmts, stmts[1:]):
            if b["mn"] == "ORG":
                continue
            if stmt_int_addr(b) != stmt_int_addr(a) + len(a["bytes"]) // 2:
                rid = size_region(im)
                run.violate("C02: a listing address does not advance by the number of bytes the previous statement emits", inp,
                            {"after": [a["mn"], a["opnd"], a["addr"], a["bytes"]], "expected": "%04X" % (stmt_int_addr(a) + len(a["bytes"]) // 2)},
                            {"listed": b["addr"]}, known_id=rid if (rid and same) else None)
                break
        # (3) every label has the listing address of the statement it labels
        syms = symtab_ints(im)
        for s in stmts:
            if s["label"] and s["mn"] != "EQU" and syms.get(s["label"]) != stmt_int_addr(s):
                run.violate("C02: a label's symbol-table value is not the listing address of its statement", inp, [s["label"], s["addr"]], syms.get(s["label"]))
                break
        # (4) every EQU symbol has its defined value
        check_equ_symbols(run, "C02", c, im, same)
        # (5) an ORG that is not first: rejected, or the image still places bytes at address - origin
        emitted_before = False
        org_bad = False
        for s in stmts:
            if s["mn"] == "ORG" and emitted_before:
                org_bad = True
            if s["bytes"]:
                emitted_before = True
        seen_org = any(s["mn"] == "ORG" for s in stmts)
        if org_bad or (seen_org and stmts and stmts[0]["mn"] != "ORG" and any(s["bytes"] for s in stmts[:[x["mn"] for x in stmts].index("ORG")])):
            origin = int(im["origin"], 16) if im["origin"] else 0
            off = 0
            ok = True
            for s in stmts:
                if s["bytes"] and stmt_int_addr(s) - origin != off:
                    ok = False
                    break
                off += len(s["bytes"]) // 2
            if not ok:
                run.violate("C02: statements cannot be laid out contiguously from one origin (later ORG / code before ORG) yet the program is accepted "
                            "and the image does not place the bytes at the listed addresses", inp, "rejected, or offsets = address - origin",
                            {"origin": im["origin"], "stmts": [[s["mn"], s["addr"]] for s in stmts][:8]}, known_id=None)            # (was finding B1; repaired in f9c374f: such programs are rejected now)


# ------------------------------------------------------------------ C03

REL_RE = re.compile(r"^\[?(?P<lab>[A-Za-z@][\w@]*)(?:(?P<k>[+-]\d+)|(?P<op2>[+-])(?P<lab2>[A-Za-z@][\w@]*))?,PCR\]?$")
BR_RE = re.compile(r"^[#<>]?(?P<lab>[A-Za-z@][\w@]*)(?P<k>[+-]\d+)?$")     # a prefix on a branch target is ignored by the tool: the label is what counts


def run_c03(run, thorough=False):
    rnd = random.Random(run.seed * 727 + 13)
    cases = list(gen_asm.branch_sweep(rnd, thorough)) + list(gen_asm.pcr_interacting(rnd, 60 if not thorough else 1500)) + \
        list(gen_asm.pcr_runs(rnd, thorough)) + list(gen_asm.random_programs(rnd, 150 if not thorough else 2000, valid_bias=0.97)) + \
        [{"lines": gen_asm.L(*(b + sfx)), "tag": "pcr-order", "meta": {}} for b, sfx in gen_asm.pcr_order(thorough)]
    res = fam_asm.compare_progs(run, "asm.disp", cases, project=proj_layout)
    bad = {fam_asm_key(d["input"]) for d in run.disagreements}
    todo = []
    for c, im, rep in res:
        run.case("asm.disp", {"tag": c["tag"], "n": len(c["lines"]), "first": c["lines"][0].strip()}, [im["k"], c["tag"]], nontrivial=True, sample_every=97)
        run.dist["c03." + c["tag"] + "." + im["k"]] += 1
        if im["k"] == "timeout" or im["k"] == "internal":
            run.violate("C13/C03: assembling a program with interdependent PCR sizes does not end with output or a diagnostic", {"lines": c["lines"]}, "ok|diag", im["k"])
            continue
        if im["k"] != "ok":
            # a rejected short branch must really be out of range (checked on the generator's distance)
            if c["tag"] in ("short-fwd", "short-bwd"):
                n = len(c["lines"]) - 2
                dist = n if c["tag"] == "short-fwd" else -(n + 1 + 2)
                if -128 <= dist <= 127:
                    run.violate("C03: a short branch whose target is in range is rejected", {"lines": c["lines"][:3] + ["..."]}, "accepted", im["k"])
            elif c["tag"] not in ("random",):
                if not (c["tag"] in ("long-far", "pcr-far")):
                    run.violate("C03: a branch / PCR program that is valid is rejected", {"lines": c["lines"][:3] + ["..."], "n": len(c["lines"])}, "accepted", im["k"])
            continue
        syms = symtab_ints(im)
        for i, st in enumerate(im["stmts"]):
            row = ROWS.get(st["mn"])
            if row is None or row.is_pseudo or st["bytes"] is None:
                continue
            m = None
            if row.is_short_branch or row.is_long_branch:
                m = BR_RE.match(st["opnd"] or "")
                kind = "branch"
            else:
                m = REL_RE.match(st["opnd"] or "")
                kind = "pcr"
            equ_syms = {x["label"] for x in im["stmts"] if x["mn"] == "EQU"}
            if not m or m.group("lab") not in syms or syms[m.group("lab")] is None or m.group("lab") in equ_syms:
                if (row.is_short_branch or row.is_long_branch):
                    todo.append((c, im, i, st, None, "branch-nonlabel"))
                continue
            extra = int(m.group("k") or 0)
            if kind == "pcr" and m.group("lab2"):
                # label +- label: the second label contributes its ADDRESS
                if m.group("lab2") not in syms or syms[m.group("lab2")] is None or m.group("lab2") in equ_syms:
                    continue
                extra = syms[m.group("lab2")] if m.group("op2") == "+" else -syms[m.group("lab2")]
            todo.append((c, im, i, st, syms[m.group("lab")] + extra, kind))
    decs = oracle_asm.decode_all([st["bytes"] for (c, im, i, st, tgt, kind) in todo])
    for (c, im, i, st, tgt, kind), d in zip(todo, decs):
        same = fam_asm_key({"lines": c["lines"], "files": None}) not in bad
        inp = {"lines": c["lines"] if len(c["lines"]) < 40 else c["lines"][:3] + ["... (%d lines)" % len(c["lines"])], "statement": [i, st["mn"], st["opnd"]]}
        if kind == "branch-nonlabel":
            run.violate("C03: a branch to something that is not a label (+constant) is accepted", inp, "diag or a displacement reaching the target",
                        st["bytes"])          # (was finding B3; repaired in 06f4653)
            continue
        addr = stmt_int_addr(st)
        if not d.get("ok") or d["n"] != len(st["bytes"]) // 2:
            rid = region_of_text(st["opnd"])
            run.violate("C03: a branch / PCR statement does not decode as one instruction", inp, "one instruction", st["bytes"], known_id=rid if same else None)
            continue
        disp = d.get("d") if d["mode"] == "rel" else d.get("off")
        if disp is None or (d["mode"] == "idx" and d.get("k") != "pcr"):
            run.violate("C03: a label,PCR operand is not encoded as a PC-relative operand", inp, "pcr", {k: d[k] for k in d if k not in ("id", "ok")})
            continue
        if (addr + d["n"] + disp - tgt) % 65536 != 0:
            rid = size_region(im)
            if rid is None:
                # an ORG after the first byte-emitting statement (finding B1): displacements are sums of sizes, not address differences
                emitted = False
                for x in im["stmts"]:
                    if x["mn"] == "ORG" and emitted:
                        rid = None            # (was finding B1: a displacement across an ORG; repaired in f9c374f)
                    if x["bytes"]:
                        emitted = True
            run.violate("C03: (address of the following instruction + displacement) mod 65536 is not the address of the referenced label (+constant)", inp,
                        {"next": addr + d["n"], "target": tgt}, {"bytes": st["bytes"], "displacement": disp},
                        known_id=rid if (rid and same) else None)


# ------------------------------------------------------------------ reference evaluator (README grammar, Python ints)

TERM_RE = re.compile(r"^(?:\$[0-9A-Fa-f]{1,4}|\d+|[\w@]+)$")
EXPR_RE = re.compile(r"^(\$?[\w@]+)([+\-*/])(\$?[\w@]+)$")


class RefUndefined(Exception):
    pass


def ref_eval(text, equs, labels, depth=0):
    """value of a literal, symbol or two-term expression as the property defines it: every EQU symbol replaced by its
    defined value, every label by its address, + - * and truncating /.  Raises RefUndefined for an undefined symbol, a
    definition cycle or a division by zero; returns None for text outside the grammar covered here."""
    if depth > 40:
        raise RefUndefined("cycle")

    def term(t):
        if re.fullmatch(r"\$[0-9A-Fa-f]{1,4}", t):
            return int(t[1:], 16)
        if re.fullmatch(r"\d+", t):
            return int(t)
        if re.fullmatch(r"[\w@]+", t):
            if t in labels:
                return labels[t]
            if t in equs:
                v = ref_eval(equs[t], equs, labels, depth + 1)
                return v
            raise RefUndefined(t)
        return None
    text = text.strip()
    m = EXPR_RE.match(text)
    if m:
        a, b = term(m.group(1)), term(m.group(3))
        if a is None or b is None:
            return None
        if m.group(2) == "/" and b == 0:
            raise RefUndefined("division by zero")
        return expr_value(a, b, m.group(2)) if m.group(2) != "/" else int(abs(a) // abs(b)) * (1 if (a >= 0) == (b >= 0) else -1)
    lv = lit_value(text)
    if lv is not None and not re.fullmatch(r"[\w@]+", text) or re.fullmatch(r"-?\d+", text):
        return lv
    if re.fullmatch(r"[\w@]+", text):
        return term(text)
    return None


def prog_symbols(lines, im=None):
    """EQU definitions (label -> operand text) and, for an accepted program, label -> listing address"""
    equs = {}
    for l in lines:
        f = l.split()
        if len(f) >= 3 and not l[0].isspace() and f[1].upper() == "EQU":
            equs[f[0]] = f[2]
    labels = {}
    if im is not None and im.get("k") == "ok":
        for st in im["stmts"]:
            if st["label"] and st["mn"] != "EQU" and st["addr"]:
                labels[st["label"]] = int(st["addr"], 16)
    return equs, labels


def check_equ_symbols(run, prop, c, im, same=True):
    """C02 / C04: every EQU symbol of an accepted program has its defined value (mod 65536) in the symbol table"""
    equs, labels = prog_symbols(c["lines"], im)
    if not equs:
        return
    syms = symtab_ints(im)
    for name, text in equs.items():
        try:
            v = ref_eval(text, equs, labels)
        except RefUndefined as e:
            run.violate("%s: an EQU that cannot be evaluated (%s) is accepted" % (prop, e), {"lines": c["lines"], "symbol": name}, "diag", "ok")
            return
        if v is None:
            continue
        run.dist[prop.lower() + ".equ-symbol-checked"] += 1
        if not (-32768 <= v <= 65535):
            run.violate("%s: an EQU whose value lies outside 16 bits is accepted" % prop, {"lines": c["lines"], "symbol": name, "value": v}, "diag", syms.get(name))
            return
        if syms.get(name) is None or (syms[name] - v) % 65536 != 0 or (v >= 0 and syms[name] != v):
            run.violate("%s: an EQU symbol does not have its defined value in the symbol table" % prop, {"lines": c["lines"], "symbol": name},
                        {"value": v}, {"symtab": syms.get(name)})
            return


# ------------------------------------------------------------------ C04

def expr_value(a, b, op):
    if op == "+":
        return a + b
    if op == "-":
        return a - b
    if op == "*":
        return a * b
    if b == 0:
        return None
    return a // b


def region_c04(meta, val):
    return None                          # (was finding C4: EQU of an expression; repaired in 0f280be)


def run_equ(run, cases, prop):
    """EQUs defined by expressions (chains, cycles, labels): the symbol table and every use carry the arithmetic value"""
    res = fam_asm.compare_progs(run, "asm.equ", cases)
    bad = {fam_asm_key(d["input"]) for d in run.disagreements}
    todo = []
    for c, im, rep in res:
        m = c["meta"]
        same = fam_asm_key({"lines": c["lines"], "files": None}) not in bad
        inp = {"lines": c["lines"]}
        run.case("asm.equ", {"src": [l.strip() for l in c["lines"]]}, [im["k"], c["tag"]], nontrivial=True, sample_every=37)
        run.dist[prop.lower() + "." + c["tag"] + "." + im["k"]] += 1
        if im["k"] not in ("ok", "diag"):
            run.violate("C13/%s: a program with EQU expressions ends in an internal error" % prop, inp, "ok|diag", [im["k"], im.get("exc")])
            continue
        if m.get("reject"):
            if im["k"] != "diag":
                run.violate("%s: an EQU that cannot be evaluated (cycle, undefined symbol, division by zero, out of range) is accepted" % prop, inp, "diag", im["k"])
            continue
        equs, labels = prog_symbols(c["lines"], im)
        if im["k"] == "diag":
            # rejected: legitimate only if some EQU or use cannot be evaluated / represented
            try:
                vals = [ref_eval(t, equs, {}) for t in list(equs.values()) + [u[2] for u in m["uses"]]]
            except RefUndefined:
                continue
            if c["tag"] == "equ-chain" and all(v is not None and 0 <= v <= 65535 for v in vals) and \
                    all(not (pos == "fcb" and v > 255) and not (pos == "fdblist" and v + 1 > 65535) for (_, pos, _), v in zip(m["uses"], vals[len(equs):])):
                run.violate("%s: a program whose EQU expressions all have representable values is rejected" % prop, inp, {"values": vals}, "diag")
            continue
        check_equ_symbols(run, prop, c, im, same)
        for idx, pos, text in m["uses"]:
            try:
                v = ref_eval(text, equs, labels)
            except RefUndefined as e:
                run.violate("%s: a use of an EQU that cannot be evaluated (%s) is accepted" % (prop, e), inp, "diag", "ok")
                continue
            if v is None:
                continue
            todo.append((c, im, idx, pos, text, v))
    decs = oracle_asm.decode_all([im["stmts"][idx]["bytes"] or "" for c, im, idx, pos, text, v in todo])
    for (c, im, idx, pos, text, v), d in zip(todo, decs):
        st = im["stmts"][idx]
        v16 = v % 65536
        inp = {"lines": c["lines"], "statement": idx, "text": text}
        if st["bytes"] is None:
            continue
        if pos == "fdb":
            got = int(st["bytes"], 16) if st["bytes"] else None
            okay = got == v16 and len(st["bytes"]) == 4
        elif pos == "fdblist":
            # FDB 1,<sym>,<sym>+1 : three words
            got = st["bytes"]
            okay = -32768 <= v and v + 1 <= 65535 and got == "0001%04x%04x" % (v16, (v + 1) % 65536)
        else:
            okay = bool(d.get("ok")) and d["n"] == len(st["bytes"]) // 2
            got = None
            if okay:
                if pos == "imm":
                    got = d.get("v")
                    wide = st["mn"] in IS16
                    okay = d["mode"] == "imm" and (got == v16 if wide else (got == v % 256 and -128 <= v <= 255))
                elif pos == "mem":
                    got = d.get("a")
                    okay = d["mode"] in ("dir", "ext") and got == v16
                elif pos == "extind":
                    got = d.get("addr")
                    okay = d.get("k") == "extind" and got == v16
                elif pos == "idx":
                    got = d.get("off")
                    okay = d.get("k") == "off" and (got - v16) % 65536 == 0
        if not okay:
            run.violate("%s: the value encoded for an operand that uses an EQU defined by an expression is not its arithmetic value" % prop, inp,
                        {"value": v, "mod65536": v16}, {"bytes": st["bytes"], "decoded": got})


def run_c04(run, thorough=False):
    rnd = random.Random(run.seed * 101 + 7)
    cases = list(gen_asm.expr_matrix(rnd))
    if not thorough:
        cases = [c for c in cases if rnd.random() < 0.3]
    # label expressions in the positions that support them, label defined before and after use
    for org in ("$0E00", "$200"):
        for late in (False, True):
            for mn, t, pos, k in (("LDX", "#L+1", "imm", 1), ("LDA", "L+1", "mem", 1), ("JMP", "L-1", "mem", -1), ("LEAX", "L+1,PCR", "pcr", 1),
                                  ("LDD", "#L-2", "imm", -2), ("LDA", "L+255", "mem", 255)):
                body = [" %s %s" % (mn, t), " NOP", "L NOP"] if late else ["L NOP", " NOP", " %s %s" % (mn, t)]
                cases.append({"lines": gen_asm.L(*([" ORG " + org] + body)), "tag": "label-expr",
                              "meta": {"mn": mn, "pos": pos, "k": k, "stmt": 1 if late else 3, "label": True}})
    # negative EQU constants in expressions (signed arithmetic)
    for a in (-1, -5, -128, -200, -32768):
        for b in (0, 1, 3, 0x100):
            for op in "+-*":
                e = "SA" + op + str(b)
                for mn, pos, t in (("LDX", "imm", "#" + e), ("LDA", "mem", e), ("FDB", "fdb", e), ("LDD", "extind", "[" + e + "]")):
                    cases.append({"lines": gen_asm.L("SA EQU %d" % a, " %s %s" % (mn, t)), "tag": "expr-signed",
                                  "meta": {"mn": mn, "pos": pos, "a": a, "b": b, "op": op, "stmt": 1}})
    # a label on the very first statement of the source (statement index 0, no ORG in front)
    for mn, t, pos, k in (("LDX", "#L+3", "imm", 3), ("LDX", "L+2", "mem", 2), ("JMP", "L+$300", "mem", 0x300), ("LDD", "#L+$1234", "imm", 0x1234),
                          ("LDX", "#2+L", "imm", 2)):
        cases.append({"lines": gen_asm.L("L NOP", " NOP", " NOP", " %s %s" % (mn, t), " NOP"), "tag": "label-expr",
                      "meta": {"mn": mn, "pos": pos, "k": k, "stmt": 3, "label": True}})
        cases.append({"lines": gen_asm.L("L %s %s" % (mn, t), " NOP", " NOP", " NOP"), "tag": "label-expr",
                      "meta": {"mn": mn, "pos": pos, "k": k, "stmt": 0, "label": True}})
    # the label sits on the ORG statement itself: statement index 0 with a non-zero address
    for org in ("$3F00", "$0E00", "$100"):
        for mn, t, pos, k in (("LDA", "L,X", "idx", 0), ("LDD", "[L,Y]", "idx", 0), ("LDX", "#L", "imm", 0), ("LDX", "#L+1", "imm", 1), ("LDA", "L+1,X", "idx", 1),
                              ("JMP", "L", "mem", 0), ("LDD", "[L]", "extind", 0), ("LEAX", "L,PCR", "pcr", 0), ("LDU", "L-1,S", "idx", -1)):
            cases.append({"lines": gen_asm.L("L ORG " + org, " NOP", " %s %s" % (mn, t), " NOP"), "tag": "label-expr",
                          "meta": {"mn": mn, "pos": pos, "k": k, "stmt": 2, "label": True}})
    # number op label, in the order written (fix bd9f69a)
    for org in ("$1000", "$0E00"):
        for t, fn in (("#5-L", lambda a: 5 - a), ("#$4000-L", lambda a: 0x4000 - a), ("#$4000/L", lambda a: 0x4000 // a), ("#3*L", lambda a: 3 * a),
                      ("#L/3", lambda a: a // 3), ("#$FFFF-L", lambda a: 0xFFFF - a)):
            for late in (False, True):
                body = [" LDX %s" % t, " NOP", "L NOP"] if late else ["L NOP", " NOP", " LDX %s" % t]
                cases.append({"lines": gen_asm.L(*([" ORG " + org] + body)), "tag": "label-order",
                              "meta": {"mn": "LDX", "pos": "imm", "stmt": 1 if late else 3, "labelfn": fn}})
    # label - constant below address zero: reduced modulo 65536 (fix 1477b47)
    for org, k in (("$0", 20), ("$0", 300), ("$10", 20000), ("$10", 65535)):
        for late in (False, True):
            body = [" LDX #L-%d" % k, " NOP", "L NOP"] if late else ["L NOP", " NOP", " LDX #L-%d" % k]
            cases.append({"lines": gen_asm.L(*([" ORG " + org] + body)), "tag": "label-expr",
                          "meta": {"mn": "LDX", "pos": "imm", "k": -k, "stmt": 1 if late else 3, "label": True}})
    # label op label (both replaced by their addresses)
    for org in ("$1000", "$0"):
        for mn, t, pos, opc in (("LDX", "#L2-L1", "imm", "-"), ("LDD", "#L1+L2", "imm", "+"), ("LDX", "#L1-L2", "imm", "-"), ("LDA", "L2-L1", "mem", "-")):
            for late in (False, True):
                body = [" %s %s" % (mn, t), "L1 NOP", " RMB 7", "L2 NOP"] if late else ["L1 NOP", " RMB 7", "L2 NOP", " %s %s" % (mn, t)]
                cases.append({"lines": gen_asm.L(*([" ORG " + org] + body)), "tag": "label-label",
                              "meta": {"mn": mn, "pos": pos, "stmt": 1 if late else 4, "label2": (t.lstrip("#")[:2], opc, t.lstrip("#")[3:])}})
    equ_cases = list(gen_asm.equ_cases(rnd, 120 if not thorough else 2500))
    run_equ(run, equ_cases, "C04")
    res = fam_asm.compare_progs(run, "asm.expr", cases)
    bad = {fam_asm_key(d["input"]) for d in run.disagreements}
    hexes = []
    for c, im, rep in res:
        idx = c["meta"]["stmt"]
        b = im["stmts"][idx]["bytes"] if im["k"] == "ok" and len(im["stmts"]) > idx else None
        hexes.append(b or "")
    decs = oracle_asm.decode_all(hexes)
    for (c, im, rep), d in zip(res, decs):
        m = c["meta"]
        same = fam_asm_key({"lines": c["lines"], "files": None}) not in bad
        inp = {"lines": c["lines"], "position": m["pos"]}
        if m.get("labelfn"):
            val = m["labelfn"](symtab_ints(im).get("L") or 1) if im["k"] == "ok" else 0
        elif m.get("label"):
            val = (symtab_ints(im).get("L") or 0) + m["k"] if im["k"] == "ok" else 0
        elif m.get("label2"):
            a_, op_, b_ = m["label2"]
            sy = symtab_ints(im) if im["k"] == "ok" else {}
            val = expr_value(sy.get(a_) or 0, sy.get(b_) or 0, op_) if im["k"] == "ok" else 0
        else:
            val = expr_value(m["a"], m["b"], m["op"])
        run.case("asm.expr", {"src": [l.strip() for l in c["lines"]], "pos": m["pos"]}, [im["k"], val], nontrivial=True, sample_every=173)
        run.dist["c04." + m["pos"] + "." + im["k"]] += 1
        if im["k"] not in ("ok", "diag"):
            run.violate("C13/C04: an expression operand ends in an internal error", inp, "ok|diag", [im["k"], im.get("exc")])
            continue
        if val is None:
            if im["k"] != "diag":
                rid = None
                run.violate("C04: division by zero is not rejected with a diagnostic", inp, "diag", im["k"], known_id=rid if (rid and same) else None)
            continue
        if im["k"] == "diag":
            if 0 <= val <= 65535:
                rid = region_c04(m, val) if not (m.get("label") or m.get("label2")) else None
                # positions that cannot hold the value legitimately reject: FCB > 255, 8-bit immediates
                if m["pos"] == "fcb" and val > 255:
                    continue
                run.violate("C04: an expression with a representable value is rejected", inp, val, "diag", known_id=rid if (rid and same) else None)
            continue                       # out of 0..65535: rejecting is allowed
        st = im["stmts"][m["stmt"]]
        v16 = val % 65536
        got = None
        pos = m["pos"]
        if st["bytes"] is None:
            continue
        if pos in ("fdb", "fcb"):
            got = int(st["bytes"], 16) if st["bytes"] else None
            want = v16 if pos == "fdb" else (val % 256 if -128 <= val <= 255 else None)
            okay = (got == want and len(st["bytes"]) == (4 if pos == "fdb" else 2))
        elif pos == "equ":
            okay = d.get("ok") and d.get("mode") == "imm" and d.get("v") == v16 and d["n"] == len(st["bytes"]) // 2
            got = d.get("v")
        else:
            okay = bool(d.get("ok")) and d["n"] == len(st["bytes"]) // 2
            if okay:
                if pos == "imm":
                    got = d.get("v")
                    okay = d["mode"] == "imm" and got == v16
                elif pos == "mem":
                    got = d.get("a")
                    okay = d["mode"] in ("dir", "ext") and got == v16
                elif pos == "extind":
                    got = d.get("addr")
                    okay = d.get("k") == "extind" and got == v16
                elif pos == "idx":
                    got = d.get("off")
                    okay = d.get("k") == "off" and (got - v16) % 65536 == 0
                elif pos == "pcr":
                    got = d.get("off")
                    if m.get("label"):
                        okay = d.get("k") == "pcr" and (stmt_int_addr(st) + d["n"] + got - val) % 65536 == 0
                    else:
                        okay = d.get("k") == "pcr" and (got - v16) % 65536 == 0
        if not okay:
            rid = region_c04(m, val)
            run.violate("C04: the value encoded is not the arithmetic value of the expression (mod 65536) at the instruction's width", inp,
                        {"value": val, "mod65536": v16}, {"bytes": st["bytes"], "decoded": got}, known_id=rid if (rid and same) else None)


# ------------------------------------------------------------------ C05

def lit_value(e):
    """value of a literal element of FCB/FDB as the README grammar defines it (None = not a plain literal)"""
    try:
        if e.startswith("$"):
            return int(e[1:], 16)
        if e.startswith("%"):
            return int(e[1:], 2)
        if e.startswith("'") and len(e) == 2:
            return ord(e[1])
        return int(e, 10)
    except ValueError:
        return None


def run_c05(run, thorough=False):
    rnd = random.Random(run.seed * 433 + 19)
    cases = list(gen_asm.data_cases(rnd, 300 if not thorough else 3000)) + list(gen_asm.fcc_cases(rnd, 200 if not thorough else 4000))
    res = fam_asm.compare_progs(run, "asm.data", cases)
    bad = {fam_asm_key(d["input"]) for d in run.disagreements}
    for c, im, rep in res:
        m = c["meta"]
        mn = m["mn"]
        same = fam_asm_key({"lines": c["lines"], "files": None}) not in bad
        inp = {"lines": [l if len(l) < 300 else l[:300] + "..." for l in c["lines"]]}
        run.case("asm.data", {"src": [l.strip()[:120] for l in c["lines"]]}, [im["k"], c["tag"]], nontrivial=True, sample_every=41)
        run.dist["c05." + c["tag"] + "." + im["k"]] += 1
        if im["k"] not in ("ok", "diag"):
            rid = None
            run.violate("C13/C05: a data directive ends in an internal error", inp, "ok|diag", [im["k"], im.get("exc")], known_id=rid if (rid and same) else None)
            continue
        if mn == "FCCODD":
            continue                          # correspondence and outcome kind only
        if mn == "DATASYM":
            exp = m["expect"]
            if exp is None:
                if im["k"] == "ok":
                    run.violate("C05/C04: a data directive / RMB / ORG operand that has no value of the directive's width is accepted", inp, "diag", "ok")
            elif im["k"] != "ok":
                run.violate("C05/C04: a symbol, expression or label in a data directive / RMB / ORG is rejected", inp, "ok", im["k"])
            else:
                for i, want in exp.items():
                    g = im["stmts"][int(i)]["bytes"]
                    if g != want:
                        run.violate("C05/C04: a data directive does not emit the value of its symbol / expression / label operand", dict(inp, statement=int(i)),
                                    want[:60], (g or "")[:60])
            continue
        st = im["stmts"][m["stmt"]] if im["k"] == "ok" else None
        got = st["bytes"] if st else None
        if im["k"] == "ok" and im.get("image") is not None and all(x["bytes"] is not None for x in im["stmts"]) and \
                im["image"] != "".join(x["bytes"] for x in im["stmts"]):
            # the bytes that reach the output are those of the image: it must consist of exactly the statements' bytes
            run.violate("C05: the emitted image does not consist of exactly the bytes the directives specify", inp,
                        "".join(x["bytes"] for x in im["stmts"])[:80], im["image"][:80])
            continue
        if st is not None and got is None:
            run.violate("C13/C05: emitting a data directive fails with an internal error", inp, "bytes", None, known_id=None)
            continue
        if mn in ("FCB", "FDB"):
            w = 1 if mn == "FCB" else 2
            vals = [lit_value(e) for e in m["elems"]]
            if any(e in ("SYM", "1+1") for e in m["elems"]):
                vals = [7 if e == "SYM" else 2 if e == "1+1" else v for e, v in zip(m["elems"], vals)]
            if any(e == "" for e in m["elems"]) or any(v is None for v in vals):
                continue                      # not a plain value list: no expectation
            fits = all(-(1 << (8 * w - 1)) <= v < (1 << (8 * w)) for v in vals)
            want = "".join("%0*x" % (2 * w, v % (1 << (8 * w))) for v in vals) if fits else None
            rid = None
            if any(e in ("SYM", "1+1") for e in m["elems"]) and len(m["elems"]) > 1:
                rid = None            # (was finding C2: a symbol inside a LIST rejected; repaired in e6da74c)
            if want is None:
                if im["k"] == "ok":
                    run.violate("C05: a value that does not fit the directive's width is not rejected", inp, "diag", got, known_id=rid if same else None)
            elif got != want:
                run.violate("C05: %s does not emit the bytes it specifies (two's complement, high byte first)" % mn, inp, want, got if im["k"] == "ok" else "diag",
                            known_id=rid if (rid and same) else None)
        elif mn == "RMB":
            v = m["v"]
            n = lit_value(str(v)) if v != "SYM" else 7
            if n is None:
                continue
            if n < 0 or n > 65535:
                if im["k"] == "ok":
                    run.violate("C05: RMB with a negative count is not rejected", inp, "diag", got[:40])
                continue
            rid = None
            if got != "00" * n:
                run.violate("C05: RMB n does not reserve exactly n zero bytes", inp, "%d zero bytes" % n, None if got is None else "%d bytes" % (len(got) // 2),
                            known_id=rid if (rid and same) else None)
        elif mn == "FCC":
            want = hexs([ord(ch) for ch in m["s"]])
            opchars = set("abcdefghijklmnopqrstuvwxyzABCDEFGHIJKLMNOPQRSTUVWXYZ0123456789_[]><'\"@:,.#?$%^&*()=!+-/")
            line = c["lines"][m["stmt"]]
            tail = line.rstrip("\n").split(m["d"] + m["s"] + m["d"], 1)[-1] if (m["d"] + m["s"] + m["d"]) in line else "?"
            # D3: the operand is rebuilt from two regex groups; exact only when the whole string lies in the operand character class
            rid = None                    # (was finding D3: the string rebuilt from two regex groups; repaired in d74c37d)
            if got != want:
                run.violate("C05: FCC does not emit exactly the characters between its delimiters", inp, want[:120], (got or im["k"])[:120],
                            known_id=rid if (rid and same) else None)
        else:
            if im["k"] == "ok" and got != "":
                run.violate("C05: %s emits bytes" % mn, inp, "", got)
            if im["k"] != "ok" and mn == "END":
                run.violate("C05: END (with or without operand) is not accepted", inp, "ok", im["k"])


# ------------------------------------------------------------------ C13

def run_c13(run, thorough=False):
    import fam_cli
    rnd = random.Random(run.seed * 557 + 23)
    n = 400 if not thorough else 6000
    cases = list(gen_asm.mutations(rnd, n)) + list(gen_asm.random_lines(rnd, n // 2)) + list(gen_asm.random_programs(rnd, n // 2, valid_bias=0.7)) + \
        list(gen_asm.pcr_interacting(rnd, 60 if not thorough else 1200)) + list(gen_asm.include_cases(rnd, 10 if not thorough else 100)) + \
        [c for c in gen_asm.branch_sweep(rnd, thorough) if c["tag"].startswith("pcr")][:: (1 if thorough else 3)] + \
        list(gen_asm.data_cases(rnd, 80)) + list(gen_asm.stress_cases(rnd)) + list(gen_asm.equ_cases(rnd, 60 if not thorough else 1000)) + \
        list(gen_asm.fcc_cases(rnd, 60 if not thorough else 1000))
    # structured stress: one or more label,PCR operands at every distance around the 8/16-bit boundary
    for n_ in range(118, 132):
        for mn in ("LDA", "LDY"):
            cases.append({"lines": gen_asm.L(*([" %s L,PCR" % mn, " %s M,PCR" % mn] + [" NOP"] * n_ + ["L NOP", "M NOP"])), "tag": "pcr-stress", "meta": {}})
            cases.append({"lines": gen_asm.L(*(["L NOP", "M NOP"] + [" NOP"] * n_ + [" %s L,PCR" % mn, " %s [M,PCR]" % mn])), "tag": "pcr-stress", "meta": {}})
    res = fam_asm.compare_progs(run, "asm.any", cases, project=lambda r: {"k": r.get("k"), "image_ok": r.get("image") is not None if r.get("k") == "ok" else None})
    bad = {fam_asm_key(d["input"]) for d in run.disagreements}
    for c, im, rep in res:
        k = im["k"]
        if k == "ok" and im["image"] is None:
            k = "emit-internal"
        run.case("asm.any", {"tag": c["tag"], "src": [l.strip() for l in c["lines"]][:6]}, [k, c["tag"]], nontrivial=True, sample_every=331)
        run.dist["c13." + c["tag"] + "." + k] += 1
        if k in ("ok", "diag"):
            continue
        same = fam_asm_key({"lines": c["lines"], "files": c.get("files")}) not in bad
        rid = None
        run.violate("C13: assembling does not end with output or a source-level diagnostic ({})".format(k),
                    {"lines": c["lines"] if len(c["lines"]) < 40 else c["lines"][:4] + ["... %d lines" % len(c["lines"])], "files": c.get("files")},
                    "ok | diag", [k, im.get("exc")], known_id=rid if (rid and same) else None)
    # command line: a diagnostic gives a non-zero exit status and creates or modifies no output file
    sub = [c for c in cases if c["tag"] in ("mutation", "random", "random-lines")][:: (8 if not thorough else 3)]
    for i, c in enumerate(sub):
        wd = fam_cli.WorkDir()
        try:
            with open(wd.path + "/src.asm", "w") as fh:
                fh.write("".join(c["lines"]))
            pre = rnd.choice([None, [1, 2, 3]])
            if pre is not None:
                wd.write("out.cas", pre)
            ns = fam_cli.asm_namespace("src.asm", to_bin="out.bin", to_cas="out.cas", to_dsk="out.dsk", name="N", append=True)
            code, out = fam_cli.run_main(fam_cli.asm_cli, ns, wd.path)
            files = {f: wd.read(f) for f in ("out.bin", "out.cas", "out.dsk")}
        finally:
            wd.close()
        im = fam_asm.impl_prog(c["lines"])
        run.case("cli.exit", {"src": [l.strip() for l in c["lines"]][:4]}, [im["k"], code], nontrivial=True, sample_every=53)
        if im["k"] == "diag":
            changed = [f for f, v in files.items() if v is not None and not (f == "out.cas" and v == pre)]
            if code == 0 or changed:
                run.violate("C13: assembly ended with a diagnostic but the command exited 0 or created/modified an output file",
                            {"lines": c["lines"]}, "non-zero exit, no file", {"exit": code, "files": changed})


# ------------------------------------------------------------------ C17

def run_c17(run, thorough=False):
    import json as _json
    import os as _os
    import subprocess as _sp
    from common import PYTHON, VERIF
    rnd = random.Random(run.seed * 17 + 29)
    progs = list(gen_asm.random_programs(rnd, 40 if not thorough else 300, valid_bias=0.95)) + list(gen_asm.mutations(rnd, 40 if not thorough else 300)) + \
        [{"lines": gen_asm.L(*gen_asm.README_PROG), "tag": "readme", "meta": {}}]
    pool = list(progs)
    nhist = 25 if not thorough else 200
    reqs = []
    checked = []
    for h in range(nhist):
        P = rnd.choice(progs)
        if h % 3 == 1:
            P = {"lines": [l[:-1] + "\r\n" if l.endswith("\n") else l for l in P["lines"]], "tag": P["tag"] + "-crlf", "meta": {}}
        qs = [rnd.choice(pool) for _ in range(rnd.choice([1, 2, 3, 6]))]
        if h % 2 == 0:
            # rejected and accepted variants of P itself (same operand texts): an undefined symbol, a duplicate label, a bad last line
            bad = [list(P["lines"]) + [" LDA #NOSUCHSYM+1\n"], list(P["lines"]) + [" LDX #C1+2\n", " LDA 70000\n"],
                   [" LDX #TABLE+2\n", " LDA #VAR+1\n"] + list(P["lines"]), list(P["lines"])[:max(1, len(P["lines"]) // 2)] + [" BRA NOWHERE\n"],
                   # the same expression texts over DIFFERENT symbol values, rejected late (after symbol resolution has run)
                   [re.sub(r"EQU\s+\S+", "EQU $77", l) for l in P["lines"]] + [" JMP NOSUCHSYM\n"],
                   [" ORG $5000\n", " RMB 77\n"] + [l for l in P["lines"] if "ORG" not in l.upper()] + [" JMP NOSUCHSYM\n"]]
            qs = [{"lines": b, "tag": "variant", "meta": {}} for b in rnd.sample(bad, rnd.choice([2, 3]))] + qs[:1]
        before = fam_asm.impl_prog_canon(fam_asm.impl_prog(P["lines"]))
        for q in qs:
            fam_asm.impl_prog(q["lines"])
        src = list(P["lines"])
        r_after = fam_asm.impl_prog(src)
        after = fam_asm.impl_prog_canon(r_after)
        again = fam_asm.impl_prog_canon(fam_asm.impl_prog(P["lines"]))
        run.case("asm.hist", {"P": [l.strip() for l in P["lines"]][:5], "history": [q["tag"] for q in qs]}, [after["k"], len(qs)], nontrivial=True, sample_every=7)
        run.dist["c17.P." + after["k"]] += 1
        for q in qs:
            run.dist["c17.Q." + fam_asm.impl_prog(q["lines"])["k"]] += 1
        if before != after or after != again:
            run.violate("C17: assembling the same source gives a different result after other programs were assembled in the same process",
                        {"P": P["lines"], "history": [q["lines"] for q in qs]}, before if len(str(before)) < 1500 else "(first result)",
                        after if len(str(after)) < 1500 else "(different result)")
        if not r_after.get("src_unchanged", True) or src != list(P["lines"]):
            run.violate("C17: assembling modified the list of source lines it was given", {"P": P["lines"]}, "unchanged", "changed")
        reqs.append({"op": "asm.prog", "id": len(reqs), "lines": P["lines"]})
        checked.append((P, after))
    # the history-free model must agree with the implementation's warm result
    for (P, after), rep in zip(checked, drive(reqs)):
        if fam_asm.model_prog_canon(rep) != after:
            run.disagree("asm.hist", {"lines": P["lines"]}, {"k": after["k"]}, {"k": rep.get("k")}, "warm result differs from the history-free model")
    # fresh processes under different hash seeds
    nproc = 8 if not thorough else 60
    for i in range(nproc):
        P = rnd.choice(progs)
        warm = fam_asm.impl_prog_canon(fam_asm.impl_prog(P["lines"]))
        outs = []
        for seed in (("0", "12345") if not thorough else ("0", "1", "4242", "random")):
            env = dict(_os.environ, PYTHONHASHSEED=seed)
            p = _sp.run([PYTHON, _os.path.join(VERIF, "harness", "asm_once.py")], input=_json.dumps(P["lines"]), capture_output=True, text=True, env=env, timeout=60)
            outs.append(_json.loads(p.stdout) if p.returncode == 0 and p.stdout.strip() else {"k": "process-failed", "err": p.stderr[-300:]})
        run.case("asm.fresh", {"P": [l.strip() for l in P["lines"]][:5]}, [warm["k"], "fresh-vs-warm"], nontrivial=True, sample_every=3)
        for o in outs:
            if o != _json.loads(_json.dumps(warm, sort_keys=True)):
                run.violate("C17: a fresh process (other hash seed) gives a different result than the warm process", {"P": P["lines"]},
                            warm if len(str(warm)) < 1500 else "(warm result)", o if len(str(o)) < 1500 else "(different)")
                break


# ------------------------------------------------------------------ C18

REGNAMES = {"A", "B", "D", "X", "Y", "U", "S", "CC", "DP", "PC", "PCR"}


def c18_programs(rnd, n):
    """accepted-looking programs whose label references are label, label+n, label-n; ORG first, origin >= $100"""
    out = []
    for _ in range(n):
        org = rnd.choice([0x0E00, 0x1000, 0x3F00, 0x7000, 0x200, 0x10, 0x80, 0xF0, 0x00])
        body = []
        nst = rnd.randrange(3, 18)
        labels = ["LA", "LB", "LOOP", "DATA1", "Q9"]
        lab_at = {rnd.randrange(nst): l for l in labels}
        for i in range(nst):
            lab = lab_at.get(i, "")
            ref = rnd.choice(labels)
            st = rnd.choice([
                "LDA #$12", "LDX #%s" % ref, "LDD #%s+2" % ref, "JMP %s" % ref, "JSR %s-1" % ref, "LDA %s" % ref, "STB >%s" % ref,
                "BRA %s" % ref, "BNE %s" % ref, "LBSR %s" % ref, "LEAX %s,PCR" % ref, "LDY [%s,PCR]" % ref, "LEAU %s+1,PCR" % ref,
                "NOP", "CLRA", "PSHS A,B,X", "TFR X,Y", "LDA ,X+", "STA 5,Y", "LDD $1234,U", "LDX [%s]" % ref, "FCB 1,2,3", "FDB $1234", "RMB 3",
                "FCC \"AB\"", "LDA #C1", "LDB C1,X", "CMPX #$4000", "FDB %s,%s+1,C1" % (ref, ref), "FDB 1,%s" % ref, "LDA %s,X" % ref, "LDU [%s,Y]" % ref, "LDD [%s,PCR]" % ref, "STA %s+1,U" % ref,
                "LEAY [%s]" % ref])
            body.append((lab, st))
        lines = ["C1 EQU $20", " ORG $%04X" % org] + ["%s %s" % (l, s) for l, s in body]
        for l in labels:
            if l not in lab_at.values():
                lines.append("%s NOP" % l)
        out.append({"lines": gen_asm.L(*lines), "tag": "c18", "meta": {"org": org, "labels": labels}})
    # directed: a suffix whose backward PCR reference spans an undecided forward one (the size loop must not depend on it)
    for b, sfx in gen_asm.pcr_order(False):
        out.append({"lines": gen_asm.L(*([" ORG $3000"] + b)), "tag": "c18-order", "meta": {"org": 0x3000, "labels": ["T0", "T1", "T2"], "suffix": sfx}})
    # directed: moves that put a label+n / label-n reference, or the last byte of the program, on the edge of the address space
    labels = ["LA", "LB", "LOOP", "DATA1", "Q9"]
    tail = ["%s NOP" % l for l in labels[1:]]
    for ref, off in (("LA+4", 4), ("LA-1", -1), ("LA", 0), ("LA+1", 1)):
        # LDY #ref is 4 bytes, LDX #ref 3 bytes, 4 NOPs, then LA (5 data bytes) as the last statement: LA = org + 11
        lines = [" ORG $3000", " LDY #%s" % ref, " LDX #%s" % ref] + tail + ["LA FCB 1,2,3,4,5"]
        for edge in (0xFFFF, 0xFFFE, 0xFF00):
            D = edge - (0x300B + off)
            if 0x300B + D + 4 <= 0xFFFF:
                out.append({"lines": gen_asm.L(*lines), "tag": "c18-edge", "meta": {"org": 0x3000, "labels": labels, "D": D}})
    return out


def reformat(rnd, lines):
    out = []
    for l in lines:
        raw = l.rstrip("\n")
        parts = raw.split(None, 2) if not raw.startswith(" ") else [""] + raw.split(None, 1)
        if len(parts) < 2:
            out.append(l)
            continue
        lab = parts[0]
        mn = parts[1]
        op = parts[2] if len(parts) > 2 else ""
        mn = rnd.choice([mn, mn.lower(), mn.capitalize()])
        ws = lambda: rnd.choice([" ", "  ", "\t", "    ", " \t "])      # noqa: E731
        if "FCC" in raw.upper():
            # a string directive: only the white space between the fields and the mnemonic case are varied; the
            # delimited string is left as written and nothing is appended behind it (seed C18-4)
            out.append(lab + ws() + mn + ws() + op + "\n")
            continue
        cm = rnd.choice(["", " ; remark", "\t;x", " plain words here", " ;"]) if op else rnd.choice(["", " ; remark"])
        out.append(lab + ws() + mn + (ws() + op if op else "") + cm + "\n")
    return out


def rename(lines, mapping):
    out = []
    for l in lines:
        out.append(re.sub(r"[A-Za-z@][\w@]*", lambda m: mapping.get(m.group(0), m.group(0)), l))
    return out


def run_scan(run, rnd, thorough):
    """the line scanner (three regexes, hand-modelled) on the line matrix: full listing, symbol table and image compared"""
    cases = list(gen_asm.line_matrix(rnd, None if thorough else 0.06))
    res = fam_asm.compare_progs(run, "asm.scan", cases)
    for c, im, rep in res:
        run.case("asm.scan", {"line": c["lines"][1]}, [im["k"]], nontrivial=True, sample_every=997)
        run.dist["scan." + im["k"]] += 1
        if im["k"] not in ("ok", "diag"):
            run.violate("C13/C18: a line ends in an internal error", {"lines": c["lines"]}, "ok|diag", [im["k"], im.get("exc")])


def run_c18(run, thorough=False):
    rnd = random.Random(run.seed * 883 + 31)
    run_scan(run, rnd, thorough)
    base = c18_programs(rnd, 60 if not thorough else 800)
    variants = []
    for c in base:
        lines = c["lines"]
        org = c["meta"]["org"]
        D = rnd.choice([1, 2, 0x10, 0x100, 0x1000, -0x100, 0x7F, 0x3001])
        if not (0 <= org + D <= 0xB000):
            D = 0x100          # origins below $100 and moves across $100 are included since fix f6fd08e / 985348a made the code uniform there
        D = c["meta"].get("D", D)
        shifted = [l.replace("ORG $%04X" % org, "ORG $%04X" % (org + D)) for l in lines]
        names = c["meta"]["labels"]
        # new names: plain ones, names with '_' / '@', and names that are not register names but look like them (made of
        # register letters, substrings of one another, differing in case)
        new = ["ZED", "K2", "Lnew", "M1q", "W"] if rnd.random() < 0.4 else rnd.choice([
            ["ZED", "K2", "Lnew", "M_1", "@W"], ["Z_D", "_K2", "L@new", "M_1_", "W@_1"], ["AB", "BD", "ABD", "XY", "SU"], ["AA", "DD", "CCR", "DPR", "PCX"],
            ["XX", "YS", "UU", "AX", "BY"], ["La", "LA", "lA", "LAA", "LAAA"], ["A1", "B2", "D3", "X4", "PC5"]])
        rnd.shuffle(new)
        mapping = dict(zip(names, new))
        suffix = gen_asm.L(*rnd.choice([[" NOP", "EXTRA LDA #1", " BRA EXTRA"], ["TAIL FCB 1,2", " FDB TAIL"], [" LEAX LA,PCR", "NEW2 RTS"], [" RMB 300", " LDA LA"]]))
        if c["meta"].get("suffix"):
            suffix = gen_asm.L(*c["meta"]["suffix"])
        variants.append((c, D, shifted, mapping, rename(lines, mapping), reformat(rnd, lines), lines + suffix))
    allcases = []
    for c, D, sh, mp, rn, rf, ap in variants:
        for tag, ls in (("base", c["lines"]), ("shift", sh), ("rename", rn), ("reformat", rf), ("append", ap)):
            allcases.append({"lines": ls, "tag": tag, "meta": {}})
    res = fam_asm.compare_progs(run, "asm.meta", allcases, project=proj_layout)
    bad = {fam_asm_key(d["input"]) for d in run.disagreements}
    it = iter(res)
    todo = []
    for c, D, sh, mp, rn, rf, ap in variants:
        rb, rs, rr, rfm, ra = [next(it)[1] for _ in range(5)]
        run.case("asm.meta", {"base": [l.strip() for l in c["lines"]][:6], "D": D}, [rb["k"]], nontrivial=rb["k"] == "ok", sample_every=11)
        run.dist["c18.base." + rb["k"]] += 1
        if rb["k"] != "ok" or any(s["bytes"] is None for s in rb["stmts"]):
            continue
        inp = {"lines": c["lines"]}
        # R3 reformat: nothing changes
        if not (rfm["k"] == "ok" and [(s["addr"], s["bytes"]) for s in rfm["stmts"]] == [(s["addr"], s["bytes"]) for s in rb["stmts"]] and rfm["symtab"] == rb["symtab"]):
            run.violate("C18: changing white space / comments / mnemonic case changes bytes, addresses or symbol values", dict(inp, reformatted=rf), "identical output", rfm["k"])
        # R2 rename: bytes and addresses identical, symbols renamed
        if not (rr["k"] == "ok" and [(s["addr"], s["bytes"]) for s in rr["stmts"]] == [(s["addr"], s["bytes"]) for s in rb["stmts"]] and
                [[mp.get(k, k), v] for k, v in rb["symtab"]] == rr["symtab"]):
            rid = None          # (was finding S1: '_' / '@' in a symbol; repaired in 4e31349)
            same = fam_asm_key({"lines": rn, "files": None}) not in bad
            run.violate("C18: consistently renaming labels changes bytes, addresses or symbol values", dict(inp, mapping=mp), "identical output", rr["k"],
                        known_id=rid if (rid and same) else None)
        # R4 append: the statements already there keep bytes, addresses, symbols
        n = len(rb["stmts"])
        if not (ra["k"] == "ok" and [(s["addr"], s["bytes"]) for s in ra["stmts"][:n]] == [(s["addr"], s["bytes"]) for s in rb["stmts"]] and
                all(kv in ra["symtab"] for kv in rb["symtab"])):
            run.violate("C18: appending statements after the last one changes the bytes, addresses or symbols of the statements already there",
                        dict(inp, appended=ap[len(c["lines"]):]), "prefix unchanged", ra["k"])
        # R1 relocation
        if rs["k"] != "ok":
            run.violate("C18: moving the origin makes an accepted program rejected", dict(inp, D=D), "ok", rs["k"])
            continue
        labels = {k for k, v in rb["symtab"] if k != "C1"}
        sb, ss = symtab_ints(rb), symtab_ints(rs)
        if any(ss.get(k) != (sb[k] + D if k in labels else sb[k]) for k in sb):
            run.violate("C18: moving the origin by D does not move every label by exactly D (or moves a constant)", dict(inp, D=D), "labels + D", [rb["symtab"], rs["symtab"]])
            continue
        for a, b in zip(rb["stmts"], rs["stmts"]):
            if stmt_int_addr(b) != stmt_int_addr(a) + D and a["mn"] not in ("EQU", "NAM"):
                run.violate("C18: moving the origin by D does not move every address by D", dict(inp, D=D), a["addr"], b["addr"])
                break
            todo.append((c, D, a, b, labels))
    decs = oracle_asm.decode_all([x[2]["bytes"] for x in todo] + [x[3]["bytes"] for x in todo])
    half = len(todo)
    for i, (c, D, a, b, labels) in enumerate(todo):
        if a["bytes"] == b["bytes"]:
            continue
        da, db = decs[i], decs[half + i]
        row = ROWS.get(a["mn"])
        inp = {"lines": c["lines"], "D": D, "statement": [a["mn"], a["opnd"]]}
        if row is None or row.is_pseudo:
            if a["mn"] == "FDB" and any(l in (a["opnd"] or "") for l in labels):
                continue
            run.violate("C18: moving the origin changes the bytes of a data directive", inp, a["bytes"], b["bytes"])
            continue
        refs_label = any(re.search(r"(?<![\w@])" + re.escape(l) + r"(?![\w@])", a["opnd"] or "") for l in labels)
        absolute = da.get("ok") and db.get("ok") and da["mode"] == db["mode"] and da["mode"] in ("ext", "imm", "idx", "dir")
        if not (refs_label and absolute):
            run.violate("C18: moving the origin changes the bytes of a statement that has no absolute reference to an own label (or a relative displacement changed)",
                        inp, a["bytes"], b["bytes"])
            continue
        va = next((da[k] for k in ("a", "v", "addr", "off") if da.get(k) is not None), None)
        vb = next((db[k] for k in ("a", "v", "addr", "off") if db.get(k) is not None), None)
        if va is None or vb is None or (vb - va - D) % 65536 != 0:
            run.violate("C18: an absolute reference to an own label does not change by exactly D", inp, {"old": va, "D": D}, {"new": vb})


# ------------------------------------------------------------------ C19

def run_c19(run, thorough=False):
    rnd = random.Random(run.seed * 71 + 37)
    cases = list(gen_asm.include_cases(rnd, 40 if not thorough else 600))
    flat_cases = [{"lines": c["meta"]["flat"], "tag": "flat", "meta": {}} for c in cases if "flat" in c["meta"]]
    res = fam_asm.compare_progs(run, "asm.include", cases, project=proj_layout)
    res_flat = fam_asm.compare_progs(run, "asm.include", flat_cases, project=proj_layout)
    bad = {fam_asm_key(d["input"]) for d in run.disagreements}
    fi = iter(res_flat)
    for c, im, rep in res:
        same = fam_asm_key({"lines": c["lines"], "files": c.get("files")}) not in bad
        inp = {"lines": c["lines"], "files": c.get("files")}
        run.case("asm.include", {"main": [l.strip() for l in c["lines"]][:6], "files": sorted((c.get("files") or {}).keys())}, [im["k"], c["tag"]], nontrivial=True, sample_every=5)
        run.dist["c19." + c["tag"] + "." + im["k"]] += 1
        if c["tag"] in ("include-missing", "include-cycle"):
            if im["k"] != "diag":
                run.violate("C19: a missing include file / an inclusion cycle is not reported as a diagnostic", inp, "diag", [im["k"], im.get("exc")],
                            known_id=None)
            continue
        fc, fim, frep = next(fi)
        a = proj_layout(fam_asm.impl_prog_canon(im))
        b = proj_layout(fam_asm.impl_prog_canon(fim))
        if a != b:
            run.violate("C19: a program with INCLUDE does not assemble to the image / addresses / symbol table of the textually spliced program", inp,
                        {"k": b.get("k")}, {"k": a.get("k")})
