#!/bin/bash
# usage: seed_eval.sh <seed-dir> <seed-id> <prop> [more props to run...]
# 1. confirms the seeded change in a scratch worktree (demo passes clean / fails patched, suite unchanged)
# 2. applies it to /repo, runs the quick checks of the given properties, undoes it
# 3. stores patch.diff, demo.py, meta.json (+ what was run and which checks caught it) under /verif/seeded/<seed-id>/
set -u
SD=$1; ID=$2; shift 2; PROPS="$@"
WT=/tmp/wt-eval
OUT=/verif/seeded/$ID
git -C /repo worktree remove --force $WT >/dev/null 2>&1
git -C /repo worktree add -q $WT HEAD || exit 2
R=""
(cd $WT && /venv/bin/python $SD/demo.py $WT) >/tmp/seed_demo_clean.txt 2>&1; C1=$?
git -C $WT apply $SD/patch.diff || { echo "patch does not apply"; git -C /repo worktree remove --force $WT; exit 2; }
(cd $WT && /venv/bin/python $SD/demo.py $WT) >/tmp/seed_demo_patched.txt 2>&1; C2=$?
T=$(cd $WT && /venv/bin/python -m pytest -q -p no:cacheprovider 2>&1 | tail -1)
git -C /repo worktree remove --force $WT
echo "demo clean exit=$C1 patched exit=$C2 tests: $T"
if [ $C1 -ne 0 ] || [ $C2 -eq 0 ] || ! echo "$T" | grep -q "4 failed, 490 passed"; then echo "SEED NOT CONFIRMED"; exit 3; fi
# run the checks against the change
if [ -n "$(git -C /repo status --porcelain)" ]; then echo "/repo not clean"; exit 2; fi
git -C /repo apply $SD/patch.diff
CAUGHT=""; MISSED=""
for P in $PROPS; do
  OUTP=$(cd /verif && ./check $P --tier quick 2>&1); RC=$?
  if [ $RC -eq 1 ]; then CAUGHT="$CAUGHT $P"; else MISSED="$MISSED $P(rc=$RC)"; fi
  echo "$OUTP" | grep -E "^(VIOLATION|PASS|FAIL|INFRA)" | head -3
done
git -C /repo checkout -- .
# the runs above rewrote evidence/<id>.json from the CHANGED tree: put the committed evidence (clean tree) back
for P in $PROPS; do git -C /verif checkout -- evidence/$P.json 2>/dev/null; done
echo "caught:$CAUGHT missed:$MISSED"
mkdir -p $OUT
cp $SD/patch.diff $SD/demo.py $OUT/
/venv/bin/python - "$SD/meta.json" "$OUT/meta.json" "$ID" "$C1" "$C2" "$T" "$CAUGHT" "$MISSED" "$PROPS" <<'PY'
import json, sys
src, dst, sid, c1, c2, t, caught, missed, props = sys.argv[1:10]
m = json.load(open(src))
m["seed_id"] = sid
m["confirmed"] = {"demo_clean_exit": int(c1), "demo_patched_exit": int(c2), "test_suite_with_patch": t,
                  "how": "scratch worktree of /repo HEAD: demo.py on the clean checkout, git apply patch.diff, demo.py again, pytest -q; worktree removed"}
m["checks_run"] = {"properties": props.split(), "caught_by": caught.split(), "not_caught_by": missed.split(),
                   "how": "git -C /repo apply patch.diff; ./check <prop> --tier quick; git -C /repo checkout -- ."}
json.dump(m, open(dst, "w"), indent=1)
PY
